package upload

// C01 — Uploaded reports contain only configuration-approved data.

import (
	"bytes"
	"encoding/binary"
	"encoding/json"
	"fmt"
	"math"
	"os"
	"path/filepath"
	"sort"
	"strings"
	"testing"
	"time"

	"golang.org/x/telemetry/internal/telemetry"
	"golang.org/x/telemetry/internal/verif/vgen"
	"golang.org/x/telemetry/internal/verif/vhook"
	"golang.org/x/telemetry/internal/verif/vmodel"
	"golang.org/x/telemetry/internal/verif/vstats"
	"pgregory.net/rapid"
)

type c01Leftover struct {
	rel     string // path relative to the telemetry dir
	week    string
	content []byte
}

// c01X draws the X the run will use (fed to computeRandom through the rand
// hook): boundary values of the configured rates and of the sample rate.
func c01X(t *rapid.T, cfg *telemetry.UploadConfig) (x float64, driven bool) {
	if rapid.IntRange(0, 5).Draw(t, "realRandom") == 0 {
		return 0, false
	}
	cands := []float64{0, 0, 0, 0.05, 0.1, 0.3, 0.5, 0.9, 0.999999, cfg.SampleRate}
	for _, p := range cfg.Programs {
		for _, c := range p.Counters {
			cands = append(cands, c.Rate)
		}
	}
	x = rapid.SampledFrom(cands).Draw(t, "xBase")
	switch rapid.IntRange(0, 3).Draw(t, "xNudge") {
	case 0:
		x = math.Nextafter(x, 2)
	case 1:
		x = math.Nextafter(x, -1)
	}
	if x < 0 {
		x = 0
	}
	if x >= 1 {
		x = math.Nextafter(1, 0)
	}
	// computeRandom yields frac*2-1 with frac in [0.5,1): only multiples of 2^-52 are reachable
	f := (x + 1) / 2
	if f >= 1 {
		f = math.Nextafter(1, 0)
	}
	return f*2 - 1, true
}

func c01RandFn(x float64) func(b []byte) {
	return func(b []byte) {
		for i := range b {
			b[i] = 0
		}
		if len(b) >= 8 {
			f := (x + 1) / 2
			if f >= 1 {
				f = math.Nextafter(1, 0)
			}
			binary.LittleEndian.PutUint64(b, math.Float64bits(f))
		}
	}
}

func TestVerifC01Approved(t *testing.T) {
	defer vstats.Flush()
	srv := vuNewServer()
	defer srv.Close()
	base := t.TempDir()
	vgen.InvalidUTF8Names = true
	defer func() { vgen.InvalidUTF8Names = false }()
	rapid.Check(t, func(t *rapid.T) {
		defer vuProcessZone(t)()
		vgen.ConcatTwins = true
		scn := vgen.UploadCase(t, vgen.FileOpts{StrictOS: true, BigValues: true, AllowBad: rapid.IntRange(0, 3).Draw(t, "allowBad") == 0})
		dir := vuFreshDir(base)
		defer os.RemoveAll(dir)
		vuWriteFiles(dir, scn.Files)
		vuSetMode(dir, "on 2000-01-01")
		today := scn.Start.Format("2006-01-02")

		// Leftovers of earlier runs.
		var left []c01Leftover
		os.MkdirAll(filepath.Join(dir, "upload"), 0777)
		nl := rapid.IntRange(0, 3).Draw(t, "nLeftovers")
		usedWeek := map[string]bool{}
		leftMarkers := []string{}
		for i := 0; i < nl; i++ {
			age := rapid.IntRange(1, 40).Draw(t, "leftAge")
			week := vgen.Midnight(scn.Start).AddDate(0, 0, -age).Format("2006-01-02")
			kind := rapid.SampledFrom([]string{"ready", "ready", "localonly", "uploaded"}).Draw(t, "leftKind")
			if usedWeek[week+kind] {
				continue
			}
			usedWeek[week+kind] = true
			m := fmt.Sprintf("LEFT%dZQ", i)
			content := []byte(fmt.Sprintf("{\"Week\":%q,\"X\":0.5,\"Programs\":[{\"Program\":\"old/%s\",\"Counters\":{\"old/%s\":1}}],\"Config\":\"v0.0.9\"}", week, m, m))
			var rel string
			switch kind {
			case "ready":
				rel = filepath.Join("local", week+".json")
			case "localonly":
				rel = filepath.Join("local", "local."+week+".json")
				leftMarkers = append(leftMarkers, m) // a local-only report must never be sent
			case "uploaded":
				rel = filepath.Join("upload", week+".json")
				leftMarkers = append(leftMarkers, m) // already uploaded: must not be sent again
			}
			os.WriteFile(filepath.Join(dir, rel), content, 0666)
			left = append(left, c01Leftover{rel, week, content})
		}
		lastWeek := ""
		for _, l := range left {
			if strings.HasPrefix(l.rel, "upload") && l.week > lastWeek {
				lastWeek = l.week
			}
		}

		x, driven := c01X(t, scn.Config)
		u := vuUploader(dir, scn.Config, "v1.2.3", srv.URL(), scn.Start)
		ctl := vhook.New()
		if driven {
			ctl.RandFn = c01RandFn(x)
		}
		ctl.Install()
		err := u.Run()
		vhook.Uninstall()
		if err != nil {
			t.Fatalf("Run: %v", err)
		}
		reqs := srv.Take()

		// ---- oracle ----
		weeks := vuWeeks(scn.Files)
		builtBodies := 0
		filteredOut, kept := false, false
		for _, r := range reqs {
			week := strings.TrimPrefix(r.Path, "/")
			// (c) a leftover ready report is sent verbatim or not at all
			isLeft := false
			for _, l := range left {
				if l.rel == filepath.Join("local", week+".json") {
					isLeft = true
					if !bytes.Equal(r.Body, l.content) {
						t.Fatalf("leftover report %s was sent with a different body", l.rel)
					}
				}
			}
			if isLeft {
				continue
			}
			builtBodies++
			var rep telemetry.Report
			if err := json.Unmarshal(r.Body, &rep); err != nil {
				t.Fatalf("request body for %s is not a JSON report: %v", week, err)
			}
			files := weeks[week]
			var expired []*vmodel.CountFile
			for _, f := range files {
				if f.End.Before(scn.Start) {
					expired = append(expired, f)
				}
			}
			if len(expired) == 0 {
				t.Fatalf("a report for week %s was sent, but no expired counter file belongs to that week", week)
			}
			if rep.Week != week || rep.Config != "v1.2.3" {
				t.Fatalf("report for %s has Week=%q Config=%q", week, rep.Week, rep.Config)
			}
			if rep.LastWeek != lastWeek {
				t.Fatalf("report for %s has LastWeek=%q, latest uploaded report before the run is %q", week, rep.LastWeek, lastWeek)
			}
			if driven && rep.X != x {
				t.Fatalf("harness: X not driven (%v vs %v)", rep.X, x)
			}
			if rep.X < 0 || rep.X > 1 || math.IsNaN(rep.X) {
				t.Fatalf("X = %v outside [0,1]", rep.X)
			}
			if scn.Config.SampleRate > 0 && rep.X > scn.Config.SampleRate {
				t.Fatalf("report with X=%v sent although the sample rate is %v", rep.X, scn.Config.SampleRate)
			}
			agg, overflow := vmodel.Aggregate(expired)
			want := vmodel.Filter(scn.Config, agg, rep.X)
			got, dup := vmodel.FromReport(&rep)
			if dup {
				t.Fatalf("report for %s lists a program build twice", week)
			}
			if overflow {
				// a sum beyond int64 cannot be held to a value; which names are there can, and so can the
				// values of the names whose own sums stayed in range
				vstats.Label("exempt:int64-overflow")
				ovf := vmodel.Overflowed(expired)
				if d := vmodel.DiffProgs(vmodel.ZeroValues(want, ovf), vmodel.ZeroValues(got, ovf)); d != "" {
					t.Fatalf("uploaded report for %s (X=%v) differs from the approved aggregate (values of names whose sum leaves int64 not compared): %s", week, rep.X, d)
				}
			} else if d := vmodel.DiffProgs(want, got); d != "" {
				t.Fatalf("uploaded report for %s (X=%v) differs from the approved aggregate: %s", week, rep.X, d)
			}
			for b, a := range agg {
				w := want[b]
				if w == nil {
					filteredOut = true
					continue
				}
				if len(w.Counters)+len(w.Stacks) > 0 {
					kept = true
				}
				if len(w.Counters) < len(a.Counters) || len(w.Stacks) < len(a.Stacks) {
					filteredOut = true
				}
			}
			// (d) after a 200 the uploaded copy equals the body sent
			up, err := os.ReadFile(filepath.Join(dir, "upload", week+".json"))
			if err != nil || !bytes.Equal(up, r.Body) {
				t.Fatalf("upload/%s.json does not equal the body sent (err=%v)", week, err)
			}
		}
		// (b) byte-level leak check
		for _, r := range reqs {
			for _, m := range append(scn.Markers, leftMarkers...) {
				if bytes.Contains(r.Body, []byte(m)) {
					t.Fatalf("request for %s contains unapproved local data %q", r.Path, m)
				}
			}
		}
		// (d) local.<week>.json equals the unfiltered aggregate of the week
		for week, files := range weeks {
			data, err := os.ReadFile(filepath.Join(dir, "local", "local."+week+".json"))
			if err != nil {
				continue
			}
			isLeft := false
			for _, l := range left {
				if l.rel == filepath.Join("local", "local."+week+".json") {
					isLeft = true
				}
			}
			if isLeft {
				continue
			}
			var rep telemetry.Report
			if err := json.Unmarshal(data, &rep); err != nil {
				t.Fatalf("local.%s.json is not JSON: %v", week, err)
			}
			var expired []*vmodel.CountFile
			for _, f := range files {
				if f.End.Before(scn.Start) {
					expired = append(expired, f)
				}
			}
			agg, overflow := vmodel.Aggregate(expired)
			got, _ := vmodel.FromReport(&rep)
			if overflow {
				// values are not compared (see above); the names are
				agg, got = vmodel.ZeroValues(agg, nil), vmodel.ZeroValues(got, nil)
			}
			{
				rendered, collided := vmodel.AsRenderedOf(agg, got)
				if collided > 0 {
					vstats.Label("renderedNamesCollide")
				}
				if d := vmodel.DiffProgs(rendered, got); d != "" {
					t.Fatalf("local.%s.json differs from the aggregate of the week's files: %s", week, d)
				}
			}
		}
		_ = today
		var paths []string
		for _, r := range reqs {
			paths = append(paths, r.Path)
		}
		sort.Strings(paths)
		desc := fmt.Sprintf("start=%s X=%v(driven=%v) cfg{%s} files{%s} leftovers=%d requests=%v", scn.Start.Format(time.RFC3339), x, driven,
			vuDescribeConfig(scn.Config), vuDescribeFiles(scn.Files), len(left), paths)
		vstats.Case(desc, builtBodies > 0 && filteredOut && kept, fmt.Sprintf("built:%d", min(builtBodies, 3)),
			fmt.Sprintf("filtered:%v", filteredOut), fmt.Sprintf("kept:%v", kept), fmt.Sprintf("driven:%v", driven))
	})
}
