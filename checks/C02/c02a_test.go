package telemetry

// C02 (a) — mode file semantics: fail-safe reading, set/read round trip,
// rejection of invalid modes without touching the file.

import (
	"bytes"
	"fmt"
	"os"
	"path/filepath"
	"strconv"
	"strings"
	"testing"
	"time"

	"golang.org/x/telemetry/internal/verif/vstats"
	"pgregory.net/rapid"
)

const c02Blank = " \t\n\r"

// c02ModelMode is the documented reading of a mode file's bytes.
func c02ModelMode(content []byte) (mode string, date string) {
	s := strings.Trim(string(content), c02Blank+"\v\f")
	if i := strings.IndexByte(s, ' '); i >= 0 {
		mode, date = s[:i], s[i+1:]
		if !c02ValidDate(date) {
			date = ""
		}
		return mode, date
	}
	return s, ""
}

// c02ValidDate: YYYY-MM-DD naming a real calendar day (own calendar arithmetic).
func c02ValidDate(d string) bool {
	if len(d) != 10 || d[4] != '-' || d[7] != '-' {
		return false
	}
	for i, c := range d {
		if i != 4 && i != 7 && (c < '0' || c > '9') {
			return false
		}
	}
	y, _ := strconv.Atoi(d[:4])
	m, _ := strconv.Atoi(d[5:7])
	day, _ := strconv.Atoi(d[8:])
	if m < 1 || m > 12 || day < 1 {
		return false
	}
	dim := []int{31, 28, 31, 30, 31, 30, 31, 31, 30, 31, 30, 31}[m-1]
	if m == 2 && (y%4 == 0 && (y%100 != 0 || y%400 == 0)) {
		dim = 29
	}
	return day <= dim
}

func c02Content() *rapid.Generator[[]byte] {
	word := rapid.OneOf(
		rapid.SampledFrom([]string{"on", "off", "local", "On", "ON", "onn", "o", "of", "offf", "locale", "", "true", "1", "on,", "\"on\""}),
		rapid.StringMatching(`[a-z]{1,6}`),
	)
	date := rapid.OneOf(
		rapid.SampledFrom([]string{"2024-02-29", "2023-02-29", "2024-13-01", "2024-00-10", "2024-1-1", "24-01-01", "2024-01-01 ", "2024-01-01x", "yesterday", "", "2024-01-32", "0000-01-01", "9999-12-31"}),
		rapid.Custom(func(t *rapid.T) string {
			return fmt.Sprintf("%04d-%02d-%02d", rapid.IntRange(1900, 2200).Draw(t, "y"), rapid.IntRange(1, 12).Draw(t, "m"), rapid.IntRange(1, 31).Draw(t, "d"))
		}),
	)
	blank := rapid.StringOfN(rapid.SampledFrom([]rune(c02Blank)), 0, 3, 3)
	return rapid.OneOf(
		rapid.Custom(func(t *rapid.T) []byte {
			s := blank.Draw(t, "lead") + word.Draw(t, "word")
			if rapid.Bool().Draw(t, "withDate") {
				s += rapid.SampledFrom([]string{" ", " ", "  ", "\t", "\n"}).Draw(t, "sep") + date.Draw(t, "date")
			}
			return []byte(s + blank.Draw(t, "trail"))
		}),
		rapid.Custom(func(t *rapid.T) []byte { // arbitrary bytes without non-ASCII white space
			b := rapid.SliceOfN(rapid.OneOf(rapid.ByteRange(0, 0x7f), rapid.SampledFrom([]byte{0xff, 0xfe, 0xc0})), 0, 24).Draw(t, "bytes")
			return b
		}),
	)
}

func TestVerifC02Mode(t *testing.T) {
	defer vstats.Flush()
	base := t.TempDir()
	n := 0
	rapid.Check(t, func(t *rapid.T) {
		n++
		root := filepath.Join(base, strconv.Itoa(n))
		defer os.RemoveAll(root)
		tdir := filepath.Join(root, "cfg", "go", "telemetry") // parent does not exist yet
		d := NewDir(tdir)
		var trace []string
		nonCanonical := false
		readCheck := func(t *rapid.T, content []byte, unreadable bool) {
			mode, asof := d.Mode()
			wantMode, wantDate := "local", ""
			if !unreadable {
				wantMode, wantDate = c02ModelMode(content)
			}
			gotDate := ""
			if !asof.IsZero() {
				gotDate = asof.Format("2006-01-02")
				if asof.Location() != time.UTC || !asof.Equal(asof.Truncate(24*time.Hour)) {
					t.Fatalf("Mode() date %v is not a UTC midnight", asof)
				}
			}
			if mode != wantMode || gotDate != wantDate {
				t.Fatalf("mode file %q (unreadable=%v): Mode() = (%q, %q), documented reading is (%q, %q)", content, unreadable, mode, gotDate, wantMode, wantDate)
			}
		}
		// the mode file does not exist: unreadable -> local
		readCheck(t, nil, true)
		if (Dir{}).modefile != "" {
			t.Fatalf("harness: zero Dir has a mode file")
		}
		if m, _ := (Dir{}).Mode(); m != "off" {
			t.Fatalf("Dir without a path: Mode() = %q, want off", m)
		}
		t.Repeat(map[string]func(*rapid.T){
			"writeRaw": func(t *rapid.T) {
				content := c02Content().Draw(t, "content")
				os.MkdirAll(tdir, 0777)
				os.RemoveAll(d.ModeFile())
				if err := os.WriteFile(d.ModeFile(), content, 0666); err != nil {
					t.Fatal(err)
				}
				readCheck(t, content, false)
				m, _ := c02ModelMode(content)
				if s := string(content); s != "on" && s != "off" && s != "local" && !(m == "on" || m == "off" || m == "local") {
					nonCanonical = true
				} else if len(content) > len(m) {
					nonCanonical = true
				}
				trace = append(trace, fmt.Sprintf("raw(%q)", content))
			},
			"dirInPlace": func(t *rapid.T) {
				os.MkdirAll(tdir, 0777)
				os.RemoveAll(d.ModeFile())
				os.Mkdir(d.ModeFile(), 0777)
				readCheck(t, nil, true)
				// setting a mode over a directory must fail and leave it
				if err := d.SetModeAsOf("on", time.Date(2024, 1, 1, 0, 0, 0, 0, time.UTC)); err == nil {
					t.Fatalf("SetMode over a directory succeeded")
				}
				os.RemoveAll(d.ModeFile())
				trace = append(trace, "dir")
			},
			"remove": func(t *rapid.T) {
				os.RemoveAll(root)
				readCheck(t, nil, true)
				trace = append(trace, "remove")
			},
			"setValid": func(t *rapid.T) {
				m := rapid.SampledFrom([]string{"on", "off", "local"}).Draw(t, "mode")
				arg := rapid.SampledFrom([]string{"", " ", "\n", "\t "}).Draw(t, "lead") + m + rapid.SampledFrom([]string{"", " ", "\n"}).Draw(t, "trail")
				year := rapid.OneOf(rapid.IntRange(1824, 2224), rapid.IntRange(1824, 2224), rapid.SampledFrom([]int{-1, 0, 1, 999, 1000, 9999, 10000, 12000})).Draw(t, "year")
				loc := rapid.SampledFrom([]*time.Location{time.UTC, time.FixedZone("east", 14*3600), time.FixedZone("west", -12*3600)}).Draw(t, "zone")
				ts := time.Date(year, time.Month(rapid.IntRange(1, 12).Draw(t, "month")), rapid.IntRange(1, 28).Draw(t, "day"),
					rapid.IntRange(0, 23).Draw(t, "hour"), rapid.IntRange(0, 59).Draw(t, "min"), 0, 0, loc)
				before, berr := os.ReadFile(d.ModeFile())
				err := d.SetModeAsOf(arg, ts)
				after, aerr := os.ReadFile(d.ModeFile())
				u := ts.UTC()
				representable := u.Year() >= 0 && u.Year() <= 9999
				if err != nil {
					if representable {
						t.Fatalf("SetModeAsOf(%q, %v) failed: %v", arg, ts, err)
					}
					if (berr == nil) != (aerr == nil) || !bytes.Equal(before, after) {
						t.Fatalf("SetModeAsOf(%q, %v) failed (%v) but changed the mode file: %q -> %q", arg, ts, err, before, after)
					}
					trace = append(trace, fmt.Sprintf("set(%q,year %d)=err", arg, year))
					return
				}
				mode, asof := d.Mode()
				wantDate := fmt.Sprintf("%04d-%02d-%02d", u.Year(), int(u.Month()), u.Day())
				if wantDate == "0001-01-01" {
					t.Skip("Go's zero time stands for 'no date'; not used as an opt-in date")
				}
				if mode != m || asof.IsZero() || asof.Format("2006-01-02") != wantDate {
					t.Fatalf("SetModeAsOf(%q, %v) then Mode() = (%q, %v); want (%q, %s)", arg, ts, mode, asof, m, wantDate)
				}
				readCheck(t, after, false)
				trace = append(trace, fmt.Sprintf("set(%q,%s)", arg, wantDate))
			},
			"setInvalid": func(t *rapid.T) {
				arg := rapid.OneOf(
					rapid.SampledFrom([]string{"", "On", "ON", "onn", "of", "true", "local ", "on off", "on 2024-01-01", "https://x.y", "local\x00", "lo cal", " on"}),
					rapid.StringMatching(`[a-z]{1,7}`),
				).Draw(t, "arg")
				if s := strings.TrimSpace(arg); s == "on" || s == "off" || s == "local" {
					t.Skip("valid")
				}
				before, berr := os.ReadFile(d.ModeFile())
				parentBefore, _ := os.Stat(tdir)
				err := d.SetMode(arg)
				after, aerr := os.ReadFile(d.ModeFile())
				parentAfter, _ := os.Stat(tdir)
				if err == nil {
					t.Fatalf("SetMode(%q) accepted an invalid mode", arg)
				}
				if (berr == nil) != (aerr == nil) || !bytes.Equal(before, after) {
					t.Fatalf("SetMode(%q) was rejected but changed the mode file: %q -> %q", arg, before, after)
				}
				if (parentBefore == nil) != (parentAfter == nil) {
					vstats.Label("note:rejected-set-created-directory")
				}
				nonCanonical = true
				trace = append(trace, fmt.Sprintf("setInvalid(%q)", arg))
			},
		})
		vstats.Case(strings.Join(trace, " "), nonCanonical, fmt.Sprintf("nonCanonical:%v", nonCanonical))
	})
}
