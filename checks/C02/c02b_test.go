package upload

// C02 (b)+(d) — upload gating by consent mode, opt-in date, age, sample rate,
// over single runs with forced boundary values and over histories of mode
// changes between runs. (c) the uploader in mode off changes nothing.

import (
	"bytes"
	"encoding/json"
	"fmt"
	"math"
	"os"
	"path/filepath"
	"sort"
	"strings"
	"testing"
	"time"

	"golang.org/x/telemetry/internal/telemetry"
	"golang.org/x/telemetry/internal/verif/vgen"
	"golang.org/x/telemetry/internal/verif/vhook"
	"golang.org/x/telemetry/internal/verif/vmodel"
	"golang.org/x/telemetry/internal/verif/vsnap"
	"golang.org/x/telemetry/internal/verif/vstats"
	"pgregory.net/rapid"
)

const c02Day = 24 * time.Hour

type c02Week struct {
	end      time.Time // recorded end (midnight UTC)
	earliest time.Time // earliest begin over the files present when the report was (or would be) built
	files    []*vmodel.CountFile
	// model state
	built      bool // a report for the week exists (local-only or uploadable)
	uploadable bool // local/<week>.json may legitimately exist
	acked      bool
	// leftoverOnly: the week's only report is a leftover <week>.json written by the harness (no local.<week>.json)
	// while its counter files are still there
	leftoverOnly bool
}

func c02ModeContent(t *rapid.T, ref time.Time) (content string, mode string, asof time.Time, unreadable bool) {
	kind := rapid.SampledFrom([]string{"on", "on", "on", "onDate", "onDate", "onDate", "onDate", "local", "localDate", "off", "other", "otherDate", "onBadDate", "unreadable", "missing"}).Draw(t, "modeKind")
	date := vgen.Midnight(ref).AddDate(0, 0, rapid.IntRange(-40, 5).Draw(t, "asofOffsetDays"))
	ds := date.Format("2006-01-02")
	switch kind {
	case "on":
		return "on", "on", time.Time{}, false
	case "onDate":
		return "on " + ds, "on", date, false
	case "local":
		return "local\n", "local", time.Time{}, false
	case "localDate":
		return "local " + ds, "local", date, false
	case "off":
		return "off " + ds, "off", date, false
	case "other":
		return rapid.SampledFrom([]string{"On", "yes", "", "onn", "o n"}).Draw(t, "otherWord"), "other", time.Time{}, false
	case "otherDate":
		return "maybe " + ds, "other", date, false
	case "onBadDate":
		return "on " + rapid.SampledFrom([]string{"2024-13-01", "soon", "2024-1-1"}).Draw(t, "badDate"), "on", time.Time{}, false
	case "unreadable":
		return "", "", time.Time{}, true
	}
	return "", "", time.Time{}, true // missing
}

func c02XFor(t *rapid.T, rate float64) float64 {
	x := rapid.SampledFrom([]float64{0, 0.25, rate, rate, 0.75, 0.999}).Draw(t, "xBase")
	switch rapid.IntRange(0, 2).Draw(t, "xNudge") {
	case 0:
		x = math.Nextafter(x, 2)
	case 1:
		x = math.Nextafter(x, -1)
	}
	if x < 0 {
		x = 0
	}
	f := (x + 1) / 2
	if f >= 1 {
		f = math.Nextafter(1, 0)
	}
	return f*2 - 1
}

func TestVerifC02Gating(t *testing.T) {
	defer vstats.Flush()
	srv := vuNewServer()
	defer srv.Close()
	base := t.TempDir()
	rapid.Check(t, func(t *rapid.T) {
		defer vuProcessZone(t)()
		dir := vuFreshDir(base)
		defer os.RemoveAll(dir)
		start := vgen.StartTime(t)
		cfg := &telemetry.UploadConfig{GOOS: []string{"linux"}, GOARCH: []string{"amd64"}, GoVersion: []string{"go1.22.1"},
			SampleRate: rapid.SampledFrom([]float64{0, 0.5, 1, 1, -1}).Draw(t, "sampleRate"),
			Programs:   []*telemetry.ProgramConfig{{Name: "cmd/go", Versions: []string{"go1.22.1"}, Counters: []telemetry.CounterConfig{{Name: "a/b", Rate: 1}}}}}
		weeks := map[string]*c02Week{}
		everSent := map[string]bool{}
		var hist []string
		forbiddenSeen, allowedSeen, boundary := false, false, false
		nfile := 0
		nsteps := rapid.IntRange(1, 4).Draw(t, "nsteps")
		now := start
		var modeContent, mode string
		var asof time.Time
		unreadable := true
		for step := 0; step < nsteps; step++ {
			if step > 0 {
				now = now.Add(time.Duration(rapid.IntRange(0, 12).Draw(t, "advanceDays"))*c02Day + time.Duration(rapid.OneOf(rapid.IntRange(0, 3600), rapid.IntRange(0, 86399)).Draw(t, "advanceSec"))*time.Second)
			}
			if step == 0 || rapid.Bool().Draw(t, "changeMode") {
				modeContent, mode, asof, unreadable = c02ModeContent(t, now)
				os.RemoveAll(filepath.Join(dir, "mode"))
				switch {
				case unreadable && rapid.Bool().Draw(t, "dirAsMode"):
					os.Mkdir(filepath.Join(dir, "mode"), 0777)
				case unreadable:
				default:
					vuSetMode(dir, modeContent)
				}
			}
			// add counter files with begin/end drawn relative to the as-of date and the start time
			nadd := rapid.IntRange(0, 3).Draw(t, "nadd")
			if step == 0 && nadd == 0 {
				nadd = 1
			}
			for i := 0; i < nadd; i++ {
				var end time.Time
				switch rapid.IntRange(0, 5).Draw(t, "endKind") {
				case 0: // around the 21-day age limit
					end = vgen.Midnight(now).AddDate(0, 0, -rapid.IntRange(20, 22).Draw(t, "ageDays"))
					boundary = true
				case 1: // today / tomorrow: around "ended before the start"
					end = vgen.Midnight(now).AddDate(0, 0, rapid.IntRange(0, 1).Draw(t, "todayOrTomorrow"))
					boundary = true
				case 2: // around the as-of date
					ref := asof
					if ref.IsZero() {
						ref = vgen.Midnight(now).AddDate(0, 0, -7)
					}
					end = ref.AddDate(0, 0, rapid.IntRange(-1, 8).Draw(t, "endVsAsof"))
					boundary = true
				default:
					end = vgen.Midnight(now).AddDate(0, 0, -rapid.IntRange(1, 19).Draw(t, "recentAge"))
				}
				// often a second file of a week that already has one (another program run that week)
				if rapid.IntRange(0, 2).Draw(t, "sameWeek") == 0 {
					var open []string
					for wk, w := range weeks {
						if !w.built && len(w.files) > 0 {
							open = append(open, wk)
						}
					}
					sort.Strings(open)
					if len(open) > 0 {
						end = weeks[open[rapid.IntRange(0, len(open)-1).Draw(t, "whichWeek")]].end
					}
				}
				// with mode off, often a further file of a week that was reported and acknowledged earlier
				forceLate := false
				if !unreadable && mode == "off" {
					var acked []string
					for wk, w := range weeks {
						if w.acked {
							acked = append(acked, wk)
						}
					}
					sort.Strings(acked)
					if len(acked) > 0 && rapid.Bool().Draw(t, "lateFileWhileOff") {
						end = weeks[acked[rapid.IntRange(0, len(acked)-1).Draw(t, "lateWeek")]].end
						forceLate = true
					}
				}
				if !forceLate && rapid.IntRange(0, 5).Draw(t, "endRecordedEastOfUTC") == 0 {
					// a file that records its span with an offset east of UTC: its week is named by the recorded date,
					// which can be tomorrow's UTC date although the end instant has passed
					z := time.FixedZone("", rapid.SampledFrom([]int{9, 14, 5}).Draw(t, "endZoneHours")*3600)
					d := vgen.Midnight(now).AddDate(0, 0, rapid.IntRange(-2, 1).Draw(t, "eastEndDay"))
					end = time.Date(d.Year(), d.Month(), d.Day(), 0, 0, 0, 0, z)
					vstats.Label("endRecordedEastOfUTC")
				}
				lateFile := false
				if w := weeks[end.Format("2006-01-02")]; w != nil && (w.built || !w.end.Equal(end)) {
					// the week already has a report (what happens to further files of it is C07's subject), or its
					// files record another end instant under the same date (one week name, two expiry instants: not
					// modelled here)
					// (only for weeks whose report certainly still exists in some form: acknowledged, i.e. recorded in upload/,
					// or built by the uploader from files, i.e. with a local.<week>.json; a leftover written by the harness
					// may have been refused and discarded, after which the week is open again)
					if !w.built || !w.end.Equal(end) || !(w.acked || len(w.files) > 0 && !w.leftoverOnly) || (!forceLate && rapid.Bool().Draw(t, "noLateFile")) {
						continue
					}
					// ... but the file may be there: a program that ran on into the next week leaves its file behind
					// after the week's report was made. The model ignores it; with mode off it must stay untouched.
					lateFile = true
					vstats.Label("lateFileForReportedWeek")
				}
				span := rapid.IntRange(1, 7).Draw(t, "spanDays")
				begin := end.AddDate(0, 0, -span)
				if !asof.IsZero() && rapid.IntRange(0, 2).Draw(t, "beginAtAsof") == 0 {
					// force begin = as-of day or the day after
					b := asof.AddDate(0, 0, rapid.IntRange(0, 1).Draw(t, "beginVsAsof"))
					if b.Before(end) && end.Sub(b) <= 7*c02Day {
						begin = b
						boundary = true
					}
				}
				nfile++
				f := &vmodel.CountFile{Build: vmodel.Build{Program: "cmd/go", Version: "go1.22.1", GoVersion: "go1.22.1", GOOS: "linux", GOARCH: "amd64"},
					Begin: begin, End: end, Kind: "ok", Counts: map[string]uint64{"a/b": uint64(nfile)},
					// (a drawn prefix decouples directory order from the begin dates)
					Base: fmt.Sprintf("%sgo@go1.22.1-go1.22.1-linux-amd64-%s_%d.v1.count", rapid.SampledFrom([]string{"", "a", "m", "z"}).Draw(t, "namePrefix"), begin.Format("2006-01-02"), nfile)}
				f.Bytes = vgen.EncodeCountFile(f)
				vuWriteFiles(dir, []*vmodel.CountFile{f})
				if lateFile {
					continue
				}
				wk := f.Week()
				if weeks[wk] == nil {
					weeks[wk] = &c02Week{end: end}
				}
				weeks[wk].files = append(weeks[wk].files, f)
			}
			// leftover ready report of an "earlier run", dated before/at/after as-of and today
			if rapid.IntRange(0, 3).Draw(t, "leftover") == 0 {
				ref := asof
				if ref.IsZero() || rapid.Bool().Draw(t, "leftoverVsToday") {
					ref = vgen.Midnight(now)
				}
				d := ref.AddDate(0, 0, rapid.IntRange(-2, 2).Draw(t, "leftoverOffset"))
				wk := d.Format("2006-01-02")
				// one leftover in three is for a week that has counter files and no report yet, if there is one
				var open []string
				for w, m := range weeks {
					if !m.built && len(m.files) > 0 {
						open = append(open, w)
					}
				}
				sort.Strings(open)
				targeted := false
				if len(open) > 0 && rapid.IntRange(0, 2).Draw(t, "leftoverForOpenWeek") == 0 {
					wk = open[rapid.IntRange(0, len(open)-1).Draw(t, "leftoverWhichWeek")]
					targeted = true
				}
				if weeks[wk] == nil {
					weeks[wk] = &c02Week{end: d, built: true, uploadable: true}
					// the uploader takes any *<date>.json that does not start with "local." for a ready report
					// and names its week by the date at the end of the name
					prefix := rapid.SampledFrom([]string{"", "", "", "gopls-", "x", "2001-01-01."}).Draw(t, "leftoverPrefix")
					os.WriteFile(filepath.Join(dir, "local", prefix+wk+".json"), []byte(fmt.Sprintf("{\"Week\":%q,\"X\":0.5,\"Config\":\"v0\"}", wk)), 0666)
					if prefix != "" {
						vstats.Label("leftoverWithPrefix")
					}
				} else if !weeks[wk].built && len(weeks[wk].files) > 0 && (targeted || rapid.Bool().Draw(t, "leftoverForWeekWithFiles")) {
					// an earlier run was interrupted between writing <week>.json and local.<week>.json: the week's
					// counter files are still there. The report exists, so the week is not built again; whether the
					// leftover may be sent is decided by the mode and the dates like for any ready report.
					weeks[wk].built, weeks[wk].uploadable, weeks[wk].leftoverOnly = true, true, true
					os.WriteFile(filepath.Join(dir, "local", wk+".json"), []byte(fmt.Sprintf("{\"Week\":%q,\"X\":0.5,\"Config\":\"v0\"}", wk)), 0666)
					boundary = true
					vstats.Label("leftoverForWeekWithFiles")
					boundary = true
				}
			}

			x := c02XFor(t, cfg.SampleRate)
			// X is drawn per report: in one run of three the uploader's successive draws alternate between two
			// values, so that the weeks built in one run can fall on different sides of the sample rate
			xs := []float64{x}
			if rapid.IntRange(0, 2).Draw(t, "varyX") == 0 {
				xs = append(xs, c02XFor(t, cfg.SampleRate))
			}
			draws := 0
			status := rapid.SampledFrom([]int{200, 200, 200, 200, 500, 503, 400, 404, 408, 429}).Draw(t, "serverStatus")
			srv.Status = func(vuRequest) int { return status }
			before := vsnap.Take(dir)
			// the start time is an instant; a caller may hand it over in any location (Config.UploadStartTime is
			// typically derived from time.Now(), which carries the local zone)
			startArg := now
			if z := rapid.SampledFrom([]int{0, 0, 0, -8 * 3600, 13 * 3600, -(11*3600 + 1800)}).Draw(t, "startZoneOffset"); z != 0 {
				startArg = now.In(time.FixedZone("zone", z))
				vstats.Label("startInOtherZone")
			}
			u := vuUploader(dir, cfg, "v1.2.3", srv.URL(), startArg)
			ctl := vhook.New()
			ctl.RandFn = func(b []byte) {
				for i := range b {
					b[i] = 0
				}
				f := (xs[draws%len(xs)] + 1) / 2
				draws++
				if len(b) >= 8 {
					bits := math.Float64bits(f)
					for i := 0; i < 8; i++ {
						b[i] = byte(bits >> (8 * i))
					}
				}
			}
			ctl.Install()
			err := u.Run()
			vhook.Uninstall()
			if err != nil {
				t.Fatalf("Run: %v", err)
			}
			reqs := srv.Take()
			after := vsnap.Take(dir)

			eff := "local"
			if !unreadable {
				eff = vmodel.EffectiveMode(mode)
				if mode == "other" {
					eff = "local"
				}
			}
			gate := vmodel.Gate{Mode: eff, AsOf: asof, Start: now, SampleRate: cfg.SampleRate}
			when := fmt.Sprintf("step %d (mode file %q unreadable=%v, start %s, X=%v, sample rate %v)", step, modeContent, unreadable, now.Format(time.RFC3339), x, cfg.SampleRate)

			if eff == "off" {
				// (c) the uploader creates, changes or removes no counter file or report
				if d := vsnap.Diff(before, after, vsnap.IsCounterOrReport); len(d) > 0 {
					t.Fatalf("%s: mode off, but the uploader changed data files: %v", when, d)
				}
				if len(reqs) > 0 {
					t.Fatalf("%s: mode off, but %d request(s) were made", when, len(reqs))
				}
				hist = append(hist, fmt.Sprintf("[%s off]", now.Format("01-02")))
				forbiddenSeen = true
				continue
			}
			// model: which weeks get built now, and which become uploadable
			for wk, w := range weeks {
				if w.built || len(w.files) == 0 || !w.end.Before(now) {
					continue
				}
				w.built = true
				w.earliest = w.files[0].Begin
				for _, f := range w.files {
					if f.Begin.Before(w.earliest) {
						w.earliest = f.Begin
					}
				}
				xw := x
				if len(xs) > 1 {
					// which of the driven values this week's report drew is recorded in its local report
					var rep struct{ X float64 }
					data, _ := os.ReadFile(filepath.Join(dir, "local", "local."+wk+".json"))
					if json.Unmarshal(data, &rep) == nil && (rep.X == xs[0] || rep.X == xs[1]) {
						xw = rep.X
						if xs[0] != xs[1] {
							vstats.Label("xVariesWithinRun")
						}
					} else if gate.WeekUploadable(w.end, w.earliest, xs[0]) != gate.WeekUploadable(w.end, w.earliest, xs[1]) {
						// (a local report that was not written in this run: the week's X is not known to the model)
						vstats.Label("xOfWeekUnknown")
						_, ready := after["local/"+wk+".json"]
						if _, done := after["upload/"+wk+".json"]; done {
							ready = true
						}
						for _, r := range reqs {
							if r.Path == "/"+wk {
								ready = true
							}
						}
						if !ready {
							xw = xs[1]
							if gate.WeekUploadable(w.end, w.earliest, xs[0]) == false {
								xw = xs[0]
							}
						} else if !gate.WeekUploadable(w.end, w.earliest, xs[0]) {
							xw = xs[1]
						}
					}
				}
				w.uploadable = gate.WeekUploadable(w.end, w.earliest, xw)
				x := xw
				if named, err := time.Parse("2006-01-02", wk); err == nil && !named.Equal(w.end) {
					// A file that records its end in a zone east of UTC: the week named D ended, as an instant, some
					// hours before D 00:00 UTC, and "no more than 21 days before the run" has two readings (the
					// library's own files end at midnight UTC, where they coincide). Where they differ either is accepted.
					if alt := gate.WeekUploadable(named, w.earliest, x); alt != w.uploadable {
						// (what the uploader decided: the ready report is in local/, or already in upload/ when it was sent and acknowledged in this run)
						_, ready := after["local/"+wk+".json"]
						_, done := after["upload/"+wk+".json"]
						w.uploadable = ready || done
						for _, r := range reqs {
							if r.Path == "/"+wk {
								w.uploadable = true // sent in this run (and perhaps refused and discarded)
							}
						}
						vstats.Label("ageLimitAmbiguousForZonedEnd")
					}
				}
				if _, ok := after["local/local."+wk+".json"]; !ok {
					t.Fatalf("%s: week %s (ended before the start, no report yet) has no local report", when, wk)
				}
				if !w.uploadable {
					forbiddenSeen = true
					if _, ok := after["local/"+wk+".json"]; ok {
						t.Fatalf("%s: week %s was made uploadable (local/%s.json) although the gate forbids it (end %s, earliest begin %s)", when, wk, wk,
							w.end.Format("2006-01-02"), w.earliest.Format("2006-01-02"))
					}
				}
			}
			var sent []string
			for _, r := range reqs {
				wk := strings.TrimPrefix(r.Path, "/")
				sent = append(sent, wk)
				w := weeks[wk]
				switch {
				case eff != "on":
					t.Fatalf("%s: a request (%s) was made although the mode is not \"on\"", when, r.Path)
				case w == nil || !w.built:
					t.Fatalf("%s: request for %s, which is not a week with a report", when, wk)
				case !w.uploadable:
					t.Fatalf("%s: week %s was sent although it may not be uploadable", when, wk)
				case !gate.ReportSendable(wk):
					t.Fatalf("%s: report %s was sent although it is in the future or not after the opt-in date %s", when, wk, asof.Format("2006-01-02"))
				case w.acked:
					t.Fatalf("%s: week %s was sent again after it had been acknowledged", when, wk)
				}
				if !bytes.Contains(r.Body, []byte(wk)) {
					t.Fatalf("%s: body of the request for %s does not mention the week", when, wk)
				}
				everSent[wk] = true
				allowedSeen = true
				if status == 200 {
					w.acked = true
				}
				if status >= 400 && status < 500 {
					w.uploadable = false // discarded
					if w.leftoverOnly && !w.end.Before(now) {
						// the leftover was the week's only report and is gone now, and the week's counter files have
						// not expired yet (files that have are removed in the same run, before the upload): the week
						// is in the state of any week without a report and is built, and gated, when the files expire
						w.built, w.leftoverOnly = false, false
						vstats.Label("leftoverDiscardedFilesRemain")
					}
				}
			}
			// reverse direction, only inside the clearly permitted region (C08 demands delivery there)
			if eff == "on" {
				for wk, w := range weeks {
					if w.built && w.uploadable && !w.acked && gate.ReportSendable(wk) {
						found := false
						for _, s := range sent {
							if s == wk {
								found = true
							}
						}
						if !found {
							t.Fatalf("%s: week %s is uploadable and sendable, mode is on, but no request was made", when, wk)
						}
					}
				}
			} else {
				forbiddenSeen = forbiddenSeen || len(weeks) > 0
			}
			sort.Strings(sent)
			hist = append(hist, fmt.Sprintf("[%s mode=%q X=%.3g status=%d sent=%v]", now.Format("2006-01-02T15:04"), modeContent, x, status, sent))
		}
		var ws []string
		for wk, w := range weeks {
			ws = append(ws, fmt.Sprintf("%s(files=%d,built=%v,uploadable=%v,acked=%v)", wk, len(w.files), w.built, w.uploadable, w.acked))
		}
		sort.Strings(ws)
		vstats.Case(fmt.Sprintf("rate=%v weeks=%v history=%v", cfg.SampleRate, ws, hist), (forbiddenSeen && allowedSeen) || boundary,
			fmt.Sprintf("forbidden:%v", forbiddenSeen), fmt.Sprintf("allowed:%v", allowedSeen), fmt.Sprintf("boundary:%v", boundary), fmt.Sprintf("steps:%d", nsteps))
	})
}
