package counter

// C02 (c) — with mode "off" the counter API creates, changes or removes no
// counter file or report.

import (
	"fmt"
	"os"
	"path/filepath"
	"strconv"
	"testing"
	"time"

	"golang.org/x/telemetry/internal/telemetry"
	"golang.org/x/telemetry/internal/verif/vgen"
	"golang.org/x/telemetry/internal/verif/vsnap"
	"golang.org/x/telemetry/internal/verif/vstats"
	"pgregory.net/rapid"
)

func TestVerifC02CounterOff(t *testing.T) {
	defer vstats.Flush()
	base := t.TempDir()
	n := 0
	rapid.Check(t, func(t *rapid.T) {
		CrashOnBugs = false
		n++
		dir := filepath.Join(base, strconv.Itoa(n))
		defer os.RemoveAll(dir)
		telemetry.Default = telemetry.NewDir(dir)
		now := vgen.StartTime(t)
		CounterTime = func() time.Time { return now }
		// pre-populate: possibly nothing at all, possibly an earlier week's files, reports, weekends, foreign files
		populated := rapid.Bool().Draw(t, "populated")
		if populated {
			os.MkdirAll(filepath.Join(dir, "local"), 0777)
			os.MkdirAll(filepath.Join(dir, "upload"), 0777)
			if rapid.Bool().Draw(t, "weekends") {
				os.WriteFile(filepath.Join(dir, "local", "weekends"), []byte("2\n"), 0666)
			}
			// a counter file with exactly the name this process would use today, from "before telemetry was turned off"
			f := &file{}
			vuOn := filepath.Join(dir, "mode")
			os.WriteFile(vuOn, []byte("local"), 0666)
			f.rotate1()
			c := &Counter{name: "pre/existing", file: f}
			c.Add(3)
			if m := f.current.Load(); m != nil {
				m.close()
			}
			os.WriteFile(filepath.Join(dir, "local", "local.2020-01-01.json"), []byte("{}"), 0666)
			os.WriteFile(filepath.Join(dir, "upload", "2020-01-01.json"), []byte("{}"), 0666)
			os.WriteFile(filepath.Join(dir, "local", "notes.txt"), []byte("foreign"), 0666)
		} else {
			os.MkdirAll(dir, 0777)
		}
		modeContent := rapid.SampledFrom([]string{"off", "off 2024-01-01", " off\n", "off bogus"}).Draw(t, "offContent")
		os.WriteFile(filepath.Join(dir, "mode"), []byte(modeContent), 0666)
		before := vsnap.Take(dir)

		f := &file{}
		var counters []*Counter
		var trace []string
		incs := 0
		nops := rapid.IntRange(1, 8).Draw(t, "nops")
		for i := 0; i < nops; i++ {
			switch rapid.SampledFrom([]string{"open", "add", "add", "add", "stack", "advance", "read"}).Draw(t, "op") {
			case "open":
				f.rotate1()
				trace = append(trace, "open")
			case "add":
				name := rapid.SampledFrom([]string{"pre/existing", "a", "b/c", "long"}).Draw(t, "name")
				if name == "long" {
					name = string(make([]byte, 3000)) + "x"
				}
				c := &Counter{name: name, file: f}
				counters = append(counters, c)
				c.Add(int64(rapid.IntRange(1, 1000).Draw(t, "n")))
				incs++
				trace = append(trace, "add")
			case "stack":
				s := &StackCounter{name: "stk", depth: 4, file: f}
				s.Inc()
				incs++
				trace = append(trace, "stackInc")
			case "advance":
				now = now.Add(time.Duration(rapid.IntRange(1, 10).Draw(t, "days")) * 24 * time.Hour)
				f.rotate1()
				trace = append(trace, "advance+rotate")
			case "read":
				if len(counters) > 0 {
					Read(counters[0])
				}
				trace = append(trace, "read")
			}
			after := vsnap.Take(dir)
			if d := vsnap.Diff(before, after, nil); len(d) > 0 {
				t.Fatalf("mode file %q: after %v the telemetry directory changed: %v", modeContent, trace, d)
			}
		}
		if m := f.current.Load(); m != nil {
			t.Fatalf("mode off, but a counter file is mapped: %s", m.f.Name())
		}
		vstats.Case(fmt.Sprintf("populated=%v mode=%q ops=%v", populated, modeContent, trace), incs > 0, fmt.Sprintf("populated:%v", populated))
	})
}

// TestVerifC02OffAtRotation: telemetry is switched off while a process is
// running. The next rotation must honour it: no new counter file is created
// once the mode is off (increments stay in memory).
func TestVerifC02OffAtRotation(t *testing.T) {
	defer vstats.Flush()
	base := t.TempDir()
	n := 0
	rapid.Check(t, func(t *rapid.T) {
		CrashOnBugs = false
		n++
		dir := filepath.Join(base, "r"+strconv.Itoa(n))
		defer os.RemoveAll(dir)
		telemetry.Default = telemetry.NewDir(dir)
		now := vgen.StartTime(t)
		CounterTime = func() time.Time { return now }
		os.MkdirAll(filepath.Join(dir, "local"), 0777)
		os.WriteFile(filepath.Join(dir, "local", "weekends"), []byte("2\n"), 0666)
		os.WriteFile(filepath.Join(dir, "mode"), []byte(rapid.SampledFrom([]string{"on 2020-01-01", "local", "on"}).Draw(t, "startMode")), 0666)
		f := &file{}
		defer func() {
			if m := f.current.Load(); m != nil {
				m.close()
			}
		}()
		f.rotate1()
		if f.current.Load() == nil {
			t.Fatalf("harness: open failed: %v", f.err)
		}
		c := &Counter{name: "a", file: f}
		var trace []string
		// some weeks with telemetry enabled
		for i, k := 0, rapid.IntRange(0, 3).Draw(t, "weeksOn"); i < k; i++ {
			c.Add(1)
			now = now.Add(time.Duration(rapid.IntRange(7, 9).Draw(t, "advanceDays")) * 24 * time.Hour)
			f.rotate1()
			trace = append(trace, "rotate(on)")
		}
		c.Add(1)
		// consent withdrawn
		os.WriteFile(filepath.Join(dir, "mode"), []byte(rapid.SampledFrom([]string{"off", "off 2024-05-05", " off\n"}).Draw(t, "offContent")), 0666)
		names := func() map[string]bool {
			m := map[string]bool{}
			ents, _ := os.ReadDir(filepath.Join(dir, "local"))
			for _, e := range ents {
				if filepath.Ext(e.Name()) == ".count" {
					m[e.Name()] = true
				}
			}
			return m
		}
		before := names()
		for i, k := 0, rapid.IntRange(1, 3).Draw(t, "weeksOff"); i < k; i++ {
			now = now.Add(time.Duration(rapid.IntRange(7, 9).Draw(t, "advanceDays")) * 24 * time.Hour)
			f.rotate1()
			c.Add(int64(rapid.IntRange(1, 5).Draw(t, "n")))
			trace = append(trace, "rotate(off)+add")
			for name := range names() {
				if !before[name] {
					t.Fatalf("mode was switched off, but the rotation at %s created the counter file %s (history %v)", now.Format("2006-01-02"), name, trace)
				}
			}
		}
		vstats.Case(fmt.Sprintf("start=%s history=%v", now.Format("2006-01-02"), trace), true, "off-at-rotation")
	})
}
