package counter

// C03 — second oracle: the same kind of generated programs run on REAL
// goroutines (no yield points) under the race detector. The cooperative
// scheduler groups plain memory accesses with the neighbouring atomic step;
// this catches data races on plain fields and checks the sums under schedules
// the Go scheduler actually produces. Unmapping is deferred to the end of the
// case, so the known use-after-unmap finding cannot kill the test process.

import (
	"fmt"
	"os"
	"path/filepath"
	"strconv"
	"strings"
	"sync"
	"syscall"
	"testing"
	"time"

	"golang.org/x/telemetry/internal/mmap"
	"golang.org/x/telemetry/internal/telemetry"
	"golang.org/x/telemetry/internal/verif/vformat"
	"golang.org/x/telemetry/internal/verif/vstats"
	"pgregory.net/rapid"
)

func TestVerifC03Race(t *testing.T) {
	defer vstats.Flush()
	base := t.TempDir()
	oldUnmap := munmap
	defer func() { munmap = oldUnmap }()
	n := 0
	rapid.Check(t, func(t *rapid.T) {
		CrashOnBugs = false
		n++
		dir := filepath.Join(base, strconv.Itoa(n))
		defer os.RemoveAll(dir)
		telemetry.Default = telemetry.NewDir(dir)
		os.MkdirAll(telemetry.Default.LocalDir(), 0777)
		os.WriteFile(filepath.Join(telemetry.Default.LocalDir(), "weekends"), []byte("3\n"), 0666)
		os.WriteFile(filepath.Join(dir, "mode"), []byte("local 2020-01-01"), 0666)
		var mu sync.Mutex
		var deferred [][]byte
		munmap = func(d *mmap.Data) error {
			if d != nil && len(d.Data) > 0 {
				mu.Lock()
				deferred = append(deferred, d.Data[:cap(d.Data)])
				mu.Unlock()
			}
			return nil
		}
		var clock sync.Mutex
		now := time.Date(2024, 3, 4, 12, 0, 0, 0, time.UTC)
		CounterTime = func() time.Time { clock.Lock(); defer clock.Unlock(); return now }
		f := &file{}
		defer func() {
			if m := f.current.Load(); m != nil {
				m.close()
			}
			for _, d := range deferred {
				syscall.Munmap(d)
			}
		}()
		nnames := rapid.IntRange(1, 4).Draw(t, "nnames")
		names := make([]string, nnames)
		counters := make([]*Counter, nnames)
		for i := range names {
			names[i] = fmt.Sprintf("r%d", i)
			if rapid.IntRange(0, 2).Draw(t, "long") == 0 {
				names[i] += "/" + strings.Repeat("x", 4000)
			}
			counters[i] = &Counter{name: names[i], file: f}
		}
		if rapid.Bool().Draw(t, "openFirst") {
			f.rotate1()
		}
		nthreads := rapid.IntRange(2, 8).Draw(t, "nthreads")
		type op struct {
			kind string
			c    int
			n    int64
		}
		progs := make([][]op, nthreads)
		begun := make([]uint64, nnames)
		rotations := 0
		for i := range progs {
			for j, k := 0, rapid.IntRange(1, 30).Draw(t, "nops"); j < k; j++ {
				o := op{kind: rapid.SampledFrom([]string{"add", "add", "add", "add", "add", "add", "open", "rotate"}).Draw(t, "op"),
					c: rapid.IntRange(0, nnames-1).Draw(t, "c"), n: int64(rapid.IntRange(1, 9).Draw(t, "n"))}
				if o.kind == "rotate" {
					if rotations >= 3 {
						o.kind = "add"
					} else {
						rotations++
					}
				}
				if o.kind == "add" {
					begun[o.c] += uint64(o.n)
				}
				progs[i] = append(progs[i], o)
			}
		}
		var wg sync.WaitGroup
		var start sync.RWMutex // (the package's tests define a function named close, so no channel close here)
		start.Lock()
		for _, p := range progs {
			p := p
			wg.Add(1)
			go func() {
				defer wg.Done()
				start.RLock()
				start.RUnlock()
				for _, o := range p {
					switch o.kind {
					case "add":
						counters[o.c].Add(o.n)
					case "open":
						f.rotate1()
					case "rotate":
						clock.Lock()
						now = now.Add(8 * 24 * time.Hour)
						clock.Unlock()
						f.rotate1()
					}
				}
			}()
		}
		start.Unlock()
		wg.Wait()
		persisted := map[string]uint64{}
		ents, _ := os.ReadDir(telemetry.Default.LocalDir())
		for _, e := range ents {
			if !strings.HasSuffix(e.Name(), ".count") {
				continue
			}
			data, err := os.ReadFile(filepath.Join(telemetry.Default.LocalDir(), e.Name()))
			if err != nil || len(data) < vformat.Page {
				continue
			}
			vf, err := vformat.Decode(data)
			if err != nil {
				t.Fatalf("counter file %s not well-formed: %v", e.Name(), err)
			}
			for k, v := range vf.Count {
				persisted[k] += v
			}
		}
		open := f.current.Load() != nil
		for i, name := range names {
			extra := counters[i].state.load().extra()
			if persisted[name]+extra != begun[i] {
				t.Fatalf("counter %q: persisted %d + pending %d != %d incremented (real goroutines)", shortRaceName(name), persisted[name], extra, begun[i])
			}
			if open && extra != 0 {
				t.Fatalf("counter %q: a file is open but %d is still unpersisted (real goroutines)", shortRaceName(name), extra)
			}
		}
		vstats.Case(fmt.Sprintf("threads=%d names=%d rotations=%d ops=%d", nthreads, nnames, rotations, len(progs[0])), nthreads >= 3 && rotations > 0,
			fmt.Sprintf("rotations:%d", rotations))
	})
}

func shortRaceName(s string) string {
	if len(s) > 12 {
		return s[:12] + "..."
	}
	return s
}
