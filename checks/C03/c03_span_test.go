package counter

// C03 — directed schedule: one Add holds the counter's reader lock while another
// goroutine grows (or rotates) the file, which invalidates the counter; the
// reader then finishes, and afterwards several Adds to the same counter overlap.
// Random schedules reach this state rarely (it takes a preemption inside the few
// steps of one Add, a whole growth in between, and then overlapping Adds of the
// same object); here the shape is fixed and only its parameters are drawn.
// Unmapping is deferred (the stale pointer of the listed use-after-unmap finding
// still lands in the file), so what is asserted is what must hold regardless:
// no panic, nothing stays in memory once all calls have returned while a file
// is open, and persisted + pending equals the sum of all increments.

import (
	"fmt"
	"strings"
	"testing"
	"time"

	"golang.org/x/telemetry/internal/telemetry"
	"golang.org/x/telemetry/internal/verif/vhook"
	"golang.org/x/telemetry/internal/verif/vstats"
	"pgregory.net/rapid"
)

var c03SpanSeq int

func TestVerifC03ReaderSpansInvalidation(t *testing.T) {
	defer vstats.Flush()
	base := t.TempDir()
	rapid.Check(t, func(t *rapid.T) {
		c03SpanSeq++
		env := c03Setup(base, 90000+c03SpanSeq, false)
		f := &file{}
		defer func() { env.teardown(f) }()
		now := time.Date(2024, 3, 4, 12, 0, 0, 0, time.UTC)
		CounterTime = func() time.Time { return now }
		f.rotate1()
		if f.current.Load() == nil {
			t.Fatalf("cannot open the counter file: %v", f.err)
		}
		localDir := telemetry.Default.LocalDir()
		c := &Counter{name: "shared", file: f}
		var total uint64
		if rapid.Bool().Draw(t, "warm") {
			c.Add(1) // the counter has a valid pointer before the schedule starts
			total++
		}
		how := rapid.SampledFrom([]string{"grow", "grow", "rotate"}).Draw(t, "invalidateBy")
		ngrow := rapid.IntRange(4, 9).Draw(t, "ngrow")
		nover := rapid.IntRange(2, 4).Draw(t, "noverlap")
		ctl := vhook.New()
		ctl.TickBudget = 5_000_000
		reader := ctl.Go("reader", func() { c.Add(1) })
		total++
		inval := ctl.Go("invalidator", func() {
			if how == "rotate" {
				now = now.Add(8 * 24 * time.Hour)
				f.rotate1()
				return
			}
			for i := 0; i < ngrow; i++ {
				(&Counter{name: fmt.Sprintf("G%d.%d/", c03SpanSeq, i) + strings.Repeat("g", 4000), file: f}).Add(1)
			}
		})
		var over []*vhook.Thread
		for i := 0; i < nover; i++ {
			n := int64(rapid.IntRange(1, 9).Draw(t, "n"))
			total += uint64(n)
			over = append(over, ctl.Go(fmt.Sprintf("adder%d", i), func() { c.Add(n) }))
		}
		ctl.Install()
		defer vhook.Uninstall()
		steps := 0
		step := func(th *vhook.Thread) {
			ctl.Step(th)
			steps++
			if th.Panic != nil {
				t.Fatalf("%s panicked at %s: %v\n%s", th.Name, th.Site, th.Panic, th.Stack)
			}
			if steps > 300000 {
				t.Fatalf("step budget exceeded (last: %s at %s)", th.Name, th.Site)
			}
		}
		runnable := func(th *vhook.Thread) bool {
			for _, r := range ctl.Runnable() {
				if r == th {
					return true
				}
			}
			return false
		}
		// 1. the reader runs a few steps (somewhere between taking the reader lock and releasing it)
		k := rapid.IntRange(0, 8).Draw(t, "readerSteps")
		for i := 0; i < k && !reader.Done && runnable(reader); i++ {
			step(reader)
		}
		// 2. the invalidator runs to completion (or until it has to wait for the reader)
		for !inval.Done && runnable(inval) {
			step(inval)
		}
		// 3. the reader finishes; then the invalidator, if it was waiting
		for !reader.Done || !inval.Done {
			progressed := false
			for _, th := range []*vhook.Thread{reader, inval} {
				if !th.Done && runnable(th) {
					step(th)
					progressed = true
				}
			}
			if !progressed {
				t.Fatalf("deadlock between the reader (at %s) and the invalidator (at %s)", reader.Site, inval.Site)
			}
		}
		// 4. the overlapping Adds: drawn bursts, round robin, so that each parks its amount while another is inside
		for {
			live := 0
			for _, th := range over {
				if th.Done {
					continue
				}
				live++
				for b, n := 0, rapid.IntRange(1, 3).Draw(t, "burst"); b < n && !th.Done && runnable(th); b++ {
					step(th)
				}
			}
			if live == 0 {
				break
			}
		}
		vhook.Uninstall()
		// quiescence
		e := c.state.load().extra()
		open := f.current.Load() != nil && f.err == nil
		if open && e != 0 {
			t.Fatalf("all calls have returned and a counter file is open, but %d of the counter is still unpersisted (reader preempted after %d steps, invalidated by %s, %d overlapping Adds)", e, k, how, nover)
		}
		p := c03Persisted(t, localDir, "quiescence")
		if p["shared"]+e != total {
			t.Fatalf("persisted %d + pending %d != sum of all increments %d (reader preempted after %d steps, invalidated by %s, %d overlapping Adds)", p["shared"], e, total, k, how, nover)
		}
		st := c.state.load()
		if st.locked() || st.readers() != 0 {
			t.Fatalf("all calls have returned but the counter is left with readers=%d locked=%v", st.readers(), st.locked())
		}
		vstats.Case(fmt.Sprintf("readerSteps=%d by=%s ngrow=%d overlap=%d closedMappings=%d", k, how, ngrow, nover, len(env.closed)), len(env.closed) > 0 && k > 0,
			"by:"+how, fmt.Sprintf("readerSteps:%d", k), fmt.Sprintf("invalidated:%v", len(env.closed) > 0))
	})
}
