package counter

// C03 — Concurrent increments are counted exactly once and never crash.
//
// Runs against a copy of internal/counter rewritten by vrewrite (atomics, sync,
// fs, loops): every atomic operation, lock operation, once.Do and intercepted
// system call is a yield point of the cooperative scheduler in vhook, and the
// schedule is part of the generated case.
//
// Identifiers of the package under test this harness relies on:
//   file{current}, (*file).rotate1, Counter{name,file,state}, (*Counter).Add,
//   counterState.load/extra, Read, memmap, munmap, CounterTime, CrashOnBugs.

import (
	"fmt"
	"os"
	"path/filepath"
	"sort"
	"strings"
	"testing"
	"time"

	"golang.org/x/telemetry/internal/telemetry"
	"golang.org/x/telemetry/internal/verif/vhook"
	"golang.org/x/telemetry/internal/verif/vstats"
	"pgregory.net/rapid"
)

type c03Op struct {
	kind string // add, open, rotate, read
	name int    // index into names
	n    int64
	obj  int // which Counter object of that name (several objects may share a name)
}

func (o c03Op) String() string {
	switch o.kind {
	case "add":
		return fmt.Sprintf("add(n%d#%d,%d)", o.name, o.obj, o.n)
	case "read":
		return fmt.Sprintf("read(n%d)", o.name)
	}
	return o.kind
}

var c03Seq int

func TestVerifC03Sched(t *testing.T) {
	defer vstats.Flush()
	base := t.TempDir()
	rapid.Check(t, func(t *rapid.T) {
		c03Seq++
		poison := rapid.IntRange(0, 3).Draw(t, "unmapMode") == 0
		if poison && vstats.IsListed("use-after-unmap") && rapid.IntRange(0, 2).Draw(t, "excludeKnown") != 0 {
			// the confirmed finding ends most poisoned cases at once; explore behind it in deferred mode
			poison = false
			vstats.Label("excluded-by-construction:poison->deferred")
		}
		env := c03Setup(base, c03Seq, poison)
		f := &file{}
		env.files = []*file{f}
		defer env.teardown(f)
		now := time.Date(2024, 3, 4, 12, 0, 0, 0, time.UTC)
		CounterTime = func() time.Time { return now }

		// names: short ones plus long ones that force page extension (remap) after two or three
		nnames := rapid.IntRange(1, 4).Draw(t, "nnames")
		// one case in four: many long names, so that the file grows (and is re-mapped) several times and two
		// threads can be changing the mapping at once
		growthHeavy := rapid.IntRange(0, 3).Draw(t, "growthHeavy") == 0
		if growthHeavy {
			nnames = rapid.IntRange(5, 9).Draw(t, "nnamesGrowth")
		}
		names := make([]string, nnames)
		for i := range names {
			if growthHeavy && i > 0 || rapid.IntRange(0, 2).Draw(t, "longName") == 0 {
				names[i] = fmt.Sprintf("L%d/", i) + strings.Repeat("x", rapid.SampledFrom([]int{3000, 4000, 4090}).Draw(t, "longLen"))
			} else {
				names[i] = fmt.Sprintf("c%d", i)
			}
		}
		type key struct{ name, obj int }
		objs := map[key]*Counter{}
		counterOf := func(name, obj int) *Counter {
			k := key{name, obj}
			if objs[k] == nil {
				objs[k] = &Counter{name: names[name], file: f}
			}
			return objs[k]
		}
		if rapid.Bool().Draw(t, "openFirst") {
			f.rotate1()
		}
		// one case in eight: every amount is close to 2^63, so that the persisted value reaches its limit through
		// several goroutines adding at the same time (it must stick at 2^64-1, not wrap)
		hugeAdds := rapid.IntRange(0, 7).Draw(t, "hugeAdds") == 0
		nthreads := rapid.IntRange(2, 5).Draw(t, "nthreads")
		progs := make([][]c03Op, nthreads)
		saturating := false
		for i := range progs {
			nops := rapid.IntRange(1, 8).Draw(t, "nops")
			for j := 0; j < nops; j++ {
				op := c03Op{kind: rapid.SampledFrom([]string{"add", "add", "add", "add", "add", "open", "rotate", "read", "stack"}).Draw(t, "op")}

				op.name = rapid.IntRange(0, nnames-1).Draw(t, "name")
				op.obj = rapid.SampledFrom([]int{0, 0, 0, 1}).Draw(t, "obj")
				op.n = rapid.OneOf(rapid.Int64Range(1, 100), rapid.Int64Range(1, 100), rapid.SampledFrom([]int64{1 << 32, 1<<33 - 2, 1<<33 - 1, 1 << 33, 1 << 62, 1<<63 - 1})).Draw(t, "n")
				if hugeAdds {
					op.n = rapid.SampledFrom([]int64{1<<63 - 1, 1<<63 - 1, 1 << 62}).Draw(t, "hugeN")
				}
				if op.n >= 1<<32 {
					saturating = true
				}
				progs[i] = append(progs[i], op)
			}
		}
		if rapid.IntRange(0, 3).Draw(t, "failingRotation") == 0 {
			// one rotation of the case fails (unusable week-end setting): the file is closed for good
			// while the other threads keep adding
			i := rapid.IntRange(0, nthreads-1).Draw(t, "failThread")
			j := rapid.IntRange(0, len(progs[i])-1).Draw(t, "failOp")
			progs[i][j].kind = "rotatefail"
		}
		// accounting (written by the threads, read by the scheduler goroutine; only one runs at a time)
		begun := make([]uint64, nnames)
		inFlightAdd := 0
		overlapped := map[string]bool{}
		for _, p := range progs {
			for _, op := range p {
				counterOf(op.name, op.obj) // create the objects up front (no allocation races in the harness)
			}
		}
		// a stack counter shared by all threads (its Inc takes a mutex, then goes through Counter.Add)
		sc := &StackCounter{name: "stk", depth: 3, file: f}
		var stackBegun uint64
		ctl := vhook.New()
		ctl.TickBudget = 5_000_000
		curCounter := map[int]*Counter{} // the counter each thread is currently adding to
		for i := range progs {
			prog := progs[i]
			tid := i
			ctl.Go(fmt.Sprintf("g%d", i), func() {
				for _, op := range prog {
					switch op.kind {
					case "add":
						c := counterOf(op.name, op.obj)
						curCounter[tid] = c
						if begun[op.name]+uint64(op.n) < begun[op.name] {
							begun[op.name] = ^uint64(0)
						} else {
							begun[op.name] += uint64(op.n)
						}
						inFlightAdd++
						c.Add(op.n)
						inFlightAdd--
					case "open":
						if inFlightAdd > 0 {
							overlapped["open"] = true
						}
						f.rotate1()
					case "rotate":
						if inFlightAdd > 0 {
							overlapped["rotate"] = true
						}
						now = now.Add(8 * 24 * time.Hour)
						f.rotate1()
					case "rotatefail":
						if inFlightAdd > 0 {
							overlapped["rotatefail"] = true
						}
						os.WriteFile(filepath.Join(telemetry.Default.LocalDir(), "weekends"), []byte(" \n"), 0666) // an empty setting: counterSpan fails
						now = now.Add(8 * 24 * time.Hour)
						f.rotate1()
					case "read":
						Read(counterOf(op.name, 0))
					case "stack":
						stackBegun++
						sc.Inc()
					}
				}
			})
		}
		ctl.Install()
		defer vhook.Uninstall()
		lastPersisted := map[string]uint64{}
		localDir := telemetry.Default.LocalDir()
		// per thread: the scheduler step of its last operation on a counter state word
		lastStateOp := map[int]int{}
		c03StepHook = func(step int, th *vhook.Thread) {
			env.noteStep(step, th)
			// th.Site is the operation the thread is parked at and performs in this step
			if strings.HasPrefix(th.Site, "counter.go:") && (strings.Contains(th.Site, ":update:") || strings.Contains(th.Site, ":load:")) {
				lastStateOp[th.ID] = step
			}
		}
		defer func() { c03StepHook = nil }()
		knownHit := false
		nclosedSeen := 0
		probes := 0
		check := func(step int, th *vhook.Thread) {
			// A mapping has just been closed. A listed counter whose pointer into it is still marked valid would
			// fault on its next Add without looking at anything else first. If there is one, that Add is made
			// here and now by an additional goroutine (a program with one more goroutine, scheduled at this
			// point): the fault is demonstrated, not inferred.
			if th.Panic == nil && len(env.closed) > nclosedSeen {
				for _, cl := range env.closed[nclosedSeen:] {
					for c := range env.listed() {
						if !c.state.load().havePtr() || c.ptr.count == nil {
							continue
						}
						if a := uintptr(unsafePointer2(c.ptr.count)); a < cl.lo || a >= cl.hi {
							continue
						}
						for i, name := range names {
							if c.name == name && begun[i]+1 > begun[i] {
								begun[i]++
							}
						}
						if strings.Contains(c.name, "\n") {
							stackBegun++ // a counter of the shared stack counter
						}
						probes++
						c := c
						pr := ctl.Go(fmt.Sprintf("probe%d", probes), func() { c.Add(1) })
						curCounter[pr.ID] = c
						ctl.RunAlone(pr, 100000)
						if pr.Panic != nil {
							if pr.IsFault {
								t.Fatalf("step %d: thread %s closed a mapping (at %s) while counter %q on the file's list still had a pointer into it marked valid; an Add on it by another goroutine at this moment faults at %#x\n%s", step, th.Name, th.Site, shortName(c.name), pr.FaultAddr, pr.Stack)
							}
							t.Fatalf("step %d: probe Add panicked: %v\n%s", step, pr.Panic, pr.Stack)
						}
					}
				}
			}
			nclosedSeen = len(env.closed)
			if th.Panic != nil {
				if th.IsFault && env.inClosed(th.FaultAddr) {
					// The listed finding is: the mapping is closed AFTER the thread last looked at the
					// counter's state word (it holds the reader count or the lock and cannot notice).
					// A thread that uses a pointer into a mapping closed BEFORE its last state update
					// had the chance to notice the invalidation: that is a different defect.
					if closed := env.closedAt(th.FaultAddr); closed > lastStateOp[th.ID] {
						sig := "use-after-unmap"
						if vstats.Known(sig) {
							knownHit = true
							return
						}
					} else if cur := curCounter[th.ID]; cur != nil && !env.closedEntry(th.FaultAddr).reg[cur] {
						// second listed finding: the counter was not yet on the file's list when the list was
						// walked to invalidate pointers into the mapping (another goroutine was still registering
						// it), so it was never invalidated and kept a pointer into the mapping closed afterwards
						sig := "use-after-unmap-unregistered"
						if vstats.Known(sig) {
							knownHit = true
							return
						}
						t.Fatalf("memory fault: thread %s used a pointer into a mapping closed at step %d; its counter was not on the file's list then (registration still in progress) and was never invalidated\n%s", th.Name, closed, th.Stack)
					} else {
						t.Fatalf("memory fault: thread %s accessed %#x in a mapping that had been closed (step %d) before the thread's last update of the counter state (step %d): it kept using a stale pointer after an invalidation it could see\n%s",
							th.Name, th.FaultAddr, closed, lastStateOp[th.ID], th.Stack)
					}
					t.Fatalf("memory fault: thread %s accessed %#x inside a mapping that was already unmapped (use after unmap)\n%s", th.Name, th.FaultAddr, th.Stack)
				}
				if th.Budget {
					t.Fatalf("thread %s: loop iteration budget exceeded (unbounded loop)\n%s", th.Name, th.Stack)
				}
				t.Fatalf("thread %s panicked at %s: %v\n%s", th.Name, th.Site, th.Panic, th.Stack)
			}
			// upper bound and monotonicity after every step (every 7th step once the case is long)
			if step > 300 && step%7 != 0 {
				return
			}
			p := c03Persisted(t, localDir, fmt.Sprintf("step %d (thread %s at %s)", step, th.Name, th.Site))
			for i, name := range names {
				var extra uint64
				for k, c := range objs {
					if k.name == i {
						extra += c.state.load().extra()
					}
				}
				if p[name] < lastPersisted[name] {
					t.Fatalf("step %d: persisted value of %q decreased %d -> %d", step, shortName(name), lastPersisted[name], p[name])
				}
				lastPersisted[name] = p[name]
				sum := p[name] + extra
				if sum < p[name] {
					sum = ^uint64(0)
				}
				if sum > begun[i] {
					t.Fatalf("step %d (thread %s at %s): counter %q persisted %d + pending %d exceeds the %d begun", step, th.Name, th.Site, shortName(name), p[name], extra, begun[i])
				}
			}
		}
		var switches int
		var trace []int
		func() {
			defer func() {
				if knownHit {
					recover()
				}
			}()
			switches, trace = c03ScheduleStop(t, ctl, 200000, check, &knownHit)
		}()
		vhook.Uninstall()
		if knownHit {
			vstats.Case("known-finding case", false, "known:use-after-unmap")
			return
		}
		// Quiescence, first part (before the epilogue, which would write out whatever is pending): all calls have
		// returned; while a counter file is open nothing may remain in memory.
		if f.current.Load() != nil && f.err == nil {
			for k, c := range objs {
				if e := c.state.load().extra(); e != 0 {
					t.Fatalf("quiescence: all calls have returned and a counter file is open, but %d of counter %q (object %d) is still unpersisted", e, shortName(names[k.name]), k.obj)
				}
			}
		}
		// Epilogue: when all threads have returned, one goroutine adds 1 to every counter object, one after the
		// other. This is part of the program (a longer program of the same kind): whatever state the concurrent
		// phase left behind - a pointer into a closed mapping that is still marked valid, a lock never released -
		// shows up here deterministically instead of only when a thread happens to pass at the right moment.
		{
			type ko struct {
				k key
				c *Counter
			}
			var all []ko
			for k, c := range objs {
				all = append(all, ko{k, c})
			}
			sort.Slice(all, func(a, b int) bool {
				if all[a].k.name != all[b].k.name {
					return all[a].k.name < all[b].k.name
				}
				return all[a].k.obj < all[b].k.obj
			})
			ctlE := vhook.New()
			ctlE.TickBudget = 2_000_000
			th := ctlE.Go("epilogue", func() {
				for _, e := range all {
					if begun[e.k.name]+1 > begun[e.k.name] {
						begun[e.k.name]++
					}
					e.c.Add(1)
				}
			})
			ctlE.Install()
			finished := ctlE.RunAlone(th, 200000)
			vhook.Uninstall()
			if th.Panic != nil {
				if th.IsFault {
					t.Fatalf("epilogue: after all threads had returned, a sequential Add faulted at %#x (in a closed mapping: %v): the concurrent phase left a counter with a dangling pointer that is still marked valid\n%s", th.FaultAddr, env.inClosed(th.FaultAddr), th.Stack)
				}
				t.Fatalf("epilogue: a sequential Add after all threads had returned panicked at %s: %v\n%s", th.Site, th.Panic, th.Stack)
			}
			if !finished {
				t.Fatalf("epilogue: a sequential Add after all threads had returned does not return (blocked at %s): the concurrent phase left a counter locked", th.Site)
			}
		}
		// quiescence
		p := c03Persisted(t, localDir, "quiescence")
		open := f.current.Load() != nil
		for i, name := range names {
			var extra uint64
			for k, c := range objs {
				if k.name == i {
					e := c.state.load().extra()
					extra += e
					if open && e != 0 && f.err == nil {
						t.Fatalf("quiescence: a counter file is open but %d of counter %q is still unpersisted", e, shortName(name))
					}
				}
			}
			if !saturating && p[name]+extra != begun[i] {
				t.Fatalf("quiescence: counter %q persisted %d + pending %d != sum of all increments %d (open=%v, err=%v)", shortName(name), p[name], extra, begun[i], open, f.err)
			}
			if saturating {
				// no-wrap clause: values stick at the limits instead of wrapping, so the total can
				// fall short of the sum begun only by what was cut off at 2^33-1 pending
				low := begun[i]
				if low > c03MaxExtra {
					low = c03MaxExtra
				}
				if sum := p[name] + extra; sum >= p[name] && sum < low {
					t.Fatalf("quiescence: counter %q persisted %d + pending %d is below min(sum begun %d, 2^33-1): a value wrapped instead of sticking", shortName(name), p[name], extra, begun[i])
				}
			}
			if p[name]+extra > begun[i] && p[name]+extra >= p[name] {
				t.Fatalf("quiescence: counter %q persisted %d + pending %d exceeds the %d begun", shortName(name), p[name], extra, begun[i])
			}
		}
		// the stack counter: all increments came from one call site, so one counter, counted exactly once
		var stackTotal uint64
		for _, c := range sc.Counters() {
			e := c.state.load().extra()
			if open && e != 0 && f.err == nil {
				t.Fatalf("quiescence: a counter file is open but %d of stack counter %q is still unpersisted", e, shortName(c.Name()))
			}
			stackTotal += p[c.Name()] + e
		}
		if stackTotal != stackBegun {
			t.Fatalf("quiescence: stack counter persisted+pending %d != %d increments (counters: %d)", stackTotal, stackBegun, len(sc.Counters()))
		}
		if stackBegun > 0 && len(sc.Counters()) != 1 {
			t.Fatalf("increments from one call stack hit %d different stack counters", len(sc.Counters()))
		}
		var ps []string
		for _, prog := range progs {
			var s []string
			for _, op := range prog {
				s = append(s, op.String())
			}
			ps = append(ps, "["+strings.Join(s, " ")+"]")
		}
		ov := []string{}
		for k := range overlapped {
			ov = append(ov, k)
		}
		nt := switches > nthreads && len(overlapped) > 0
		vstats.Case(fmt.Sprintf("poison=%v names=%d progs=%s schedule(len %d, %d switches)=%v", poison, nnames, strings.Join(ps, " "), len(trace), switches, tail(trace, 60)), nt,
			fmt.Sprintf("poison:%v", poison), fmt.Sprintf("saturating:%v", saturating), fmt.Sprintf("growthHeavy:%v", growthHeavy), fmt.Sprintf("hugeAdds:%v", hugeAdds), "overlap:"+strings.Join(ov, "+"), fmt.Sprintf("switches>10:%v", switches > 10))
		vstats.Note("scheduler_steps", int64(len(trace)))
		vstats.NoteMax("max_steps_per_case", int64(len(trace)))
	})
}

// c03ScheduleStop is c03Schedule that stops scheduling as soon as *stop is set by check.
func c03ScheduleStop(t *rapid.T, ctl *vhook.Controller, maxSteps int, check func(int, *vhook.Thread), stop *bool) (int, []int) {
	return c03Schedule(t, ctl, maxSteps, func(step int, th *vhook.Thread) {
		check(step, th)
		if *stop {
			panic("stop: known finding")
		}
	})
}

// TestVerifC03Known replays, with a fixed schedule, the known finding
// "use-after-unmap": an adder takes the counter's reader count, the rotator
// runs rotate1 to completion (which unmaps the previous mapping), the adder
// resumes inside Counter.add. If the defect is repaired nothing is reported.
func TestVerifC03Known(t *testing.T) {
	defer vstats.Flush()
	base := t.TempDir()
	env := c03Setup(base, 1, true)
	f := &file{}
	defer env.teardown(f)
	now := time.Date(2024, 3, 4, 12, 0, 0, 0, time.UTC)
	CounterTime = func() time.Time { return now }
	f.rotate1()
	c := &Counter{name: "c0", file: f}
	c.Add(1) // now the counter has a pointer into the first mapping
	ctl := vhook.New()
	adder := ctl.Go("adder", func() { c.Add(1) })
	rotator := ctl.Go("rotator", func() { now = now.Add(8 * 24 * time.Hour); f.rotate1() })
	ctl.Install()
	defer vhook.Uninstall()
	for i := 0; i < 1000 && !adder.Done && c.state.load().readers() != 1; i++ {
		ctl.Step(adder)
	}
	if adder.Done {
		t.Fatalf("harness: the adder finished before taking the reader count")
	}
	if !ctl.RunAlone(rotator, 100000) {
		t.Fatalf("rotator did not finish while a reader was active (blocked: the defect may have been repaired by waiting; adjust this replay)")
	}
	ctl.RunAlone(adder, 100000)
	vhook.Uninstall()
	vstats.Case("fixed schedule: adder takes reader count; rotator completes rotate1; adder resumes", true, "known-replay")
	if adder.Panic == nil {
		return // not reproduced: repaired
	}
	if adder.IsFault && env.inClosed(adder.FaultAddr) {
		if vstats.Known("use-after-unmap") {
			return
		}
		t.Fatalf("use after unmap in Counter.add (fault at %#x)\n%s", adder.FaultAddr, adder.Stack)
	}
	t.Fatalf("adder panicked: %v\n%s", adder.Panic, adder.Stack)
}

// TestVerifC03KnownUnregistered replays, with a fixed schedule, the known
// finding "use-after-unmap-unregistered": goroutine Y sets c.next but is paused
// before linking c into the file's list; goroutine Z's Add on the same Counter
// skips registration, looks the counter up and keeps a pointer; a rotation then
// invalidates only the listed counters and unmaps; Y finishes; the next Add on
// c uses the stale pointer. If the defect is repaired nothing is reported.
func TestVerifC03KnownUnregistered(t *testing.T) {
	defer vstats.Flush()
	base := t.TempDir()
	env := c03Setup(base, 2, true)
	f := &file{}
	env.files = []*file{f}
	defer env.teardown(f)
	now := time.Date(2024, 3, 4, 12, 0, 0, 0, time.UTC)
	CounterTime = func() time.Time { return now }
	f.rotate1()
	c := &Counter{name: "c0", file: f}
	ctl := vhook.New()
	y := ctl.Go("Y", func() { c.Add(1) })
	z := ctl.Go("Z", func() { c.Add(1) })
	rotator := ctl.Go("rotator", func() { now = now.Add(8 * 24 * time.Hour); f.rotate1() })
	late := ctl.Go("late", func() { c.Add(1) })
	ctl.Install()
	defer vhook.Uninstall()
	listed := func() bool {
		if head := f.counters.Load(); head != nil {
			for p := head; p != nil && p != &f.end; p = p.next.Load() {
				if p == c {
					return true
				}
			}
		}
		return false
	}
	for i := 0; i < 1000 && !y.Done && c.next.Load() == nil; i++ {
		ctl.Step(y)
	}
	if y.Done || listed() {
		t.Fatalf("harness: Y was not stopped between setting c.next and linking c")
	}
	if !ctl.RunAlone(z, 100000) {
		return // Z waits for the registration to finish: repaired by waiting
	}
	if !ctl.RunAlone(rotator, 100000) {
		t.Fatalf("rotator did not finish")
	}
	ctl.RunAlone(y, 100000)
	ctl.RunAlone(late, 100000)
	vhook.Uninstall()
	vstats.Case("fixed schedule: Y sets c.next; Z adds (pointer acquired while unlisted); rotator completes; Y links; late Add", true, "known-replay-unregistered")
	for _, th := range []*vhook.Thread{y, z, rotator, late} {
		if th.Panic == nil {
			continue
		}
		if th.IsFault && env.inClosed(th.FaultAddr) {
			if vstats.Known("use-after-unmap-unregistered") {
				return
			}
			t.Fatalf("use after unmap through an unlisted counter (fault at %#x)\n%s", th.FaultAddr, th.Stack)
		}
		t.Fatalf("%s panicked: %v\n%s", th.Name, th.Panic, th.Stack)
	}
}
