package counter

// C04 — "no surviving process is ever blocked or made to fail by what another
// process did": a directed adversary. One process (the victim) creates one
// counter; every time it has grown or re-mapped the file and is about to look
// at the allocation limit again, the other processes complete a drawn number
// of whole operations (creating counters with long names, so that they use up
// what the victim has just mapped). The others stop after a bounded number of
// operations, so the victim must succeed.

import (
	"fmt"
	"os"
	"strings"
	"testing"
	"time"

	"golang.org/x/telemetry/internal/verif/vformat"
	"golang.org/x/telemetry/internal/verif/vgen"
	"golang.org/x/telemetry/internal/verif/vhook"
	"golang.org/x/telemetry/internal/verif/vstats"
	"pgregory.net/rapid"
)

var c04BusySeq int

func TestVerifC04BusyNeighbours(t *testing.T) {
	defer vstats.Flush()
	base := t.TempDir()
	rapid.Check(t, func(t *rapid.T) {
		c04BusySeq++
		env := c03Setup(base, 70000+c04BusySeq, true)
		nothers := rapid.IntRange(1, 3).Draw(t, "nothers")
		files := make([]*file, 1+nothers)
		defer func() { env.teardown(files...) }()
		now := time.Date(2024, 3, 4, 12, 0, 0, 0, time.UTC)
		CounterTime = func() time.Time { return now }
		var path string
		for p := range files {
			files[p] = &file{}
			files[p].rotate1()
			m := files[p].current.Load()
			if m == nil {
				t.Fatalf("process %d could not open the file: %v", p, files[p].err)
			}
			path = m.f.Name()
		}
		long := func(label string) int {
			return rapid.OneOf(rapid.SampledFrom([]int{4000, 4096, 2700}), rapid.IntRange(1300, 4096)).Draw(t, label)
		}
		// mk pads prefix to a name of exactly n bytes (names of up to 4096 bytes are legal)
		mk := func(prefix string, n int) string { return prefix + strings.Repeat("x", n-len(prefix)) }
		want := map[string]uint64{}
		// some records beforehand, so that the victim's record lands near or beyond a page end
		for i, n := 0, rapid.IntRange(0, 7).Draw(t, "prefill"); i < n; i++ {
			name := mk(fmt.Sprintf("pre%d/", i), long("prefillLen"))
			(&Counter{name: name, file: files[1]}).Add(1)
			want[name] = 1
		}
		victimName := mk("victim/", long("victimLen"))
		victimN := uint64(rapid.IntRange(1, 9).Draw(t, "victimN"))
		want[victimName] = victimN
		type op struct {
			name string
			n    uint64
		}
		progs := make([][]op, nothers)
		for p := range progs {
			for j, n := 0, rapid.IntRange(3, 10).Draw(t, "nops"); j < n; j++ {
				o := op{mk(fmt.Sprintf("o%d.%d/", p, j), long("otherLen")), uint64(rapid.IntRange(1, 9).Draw(t, "n"))}
				if rapid.IntRange(0, 3).Draw(t, "sameBucket") == 0 {
					// a short name in the victim's hash bucket: its record, placed wherever the file has grown to,
					// becomes the head of the chain the victim walks
					o.name = vgen.Colliding(victimName, p*100+j)
				}
				progs[p] = append(progs[p], o)
				want[o.name] = o.n
			}
		}
		ctl := vhook.New()
		ctl.KeepLog = true
		ctl.TickBudget = 5_000_000
		victimC := &Counter{name: victimName, file: files[0]}
		victim := ctl.Go("victim", func() { victimC.Add(int64(victimN)) })
		done := make([]int, nothers)
		others := make([]*vhook.Thread, nothers)
		otherC := make([][]*Counter, nothers)
		for p := range progs {
			p := p
			for _, o := range progs[p] {
				otherC[p] = append(otherC[p], &Counter{name: o.name, file: files[1+p]})
			}
			others[p] = ctl.Go(fmt.Sprintf("other%d", p), func() {
				for j, o := range progs[p] {
					otherC[p][j].Add(int64(o.n))
					done[p]++
				}
			})
		}
		ctl.Install()
		defer vhook.Uninstall()
		checkFile := func(when string) {
			data, err := os.ReadFile(path)
			if err != nil {
				t.Fatalf("%s: %v", when, err)
			}
			f, err := vformat.Decode(data)
			if err != nil {
				t.Fatalf("%s: the shared file is not well-formed: %v", when, err)
			}
			if probs := f.Validate(); len(probs) > 0 {
				t.Fatalf("%s: the shared file violates the layout: %s", when, strings.Join(probs, "; "))
			}
			for name, v := range f.Count {
				if v > want[name] {
					t.Fatalf("%s: counter %q is %d, more than the %d begun", when, shortName(name), v, want[name])
				}
			}
		}
		fail := func(th *vhook.Thread) {
			if th.Panic != nil {
				t.Fatalf("%s panicked at %s: %v\n%s", th.Name, th.Site, th.Panic, th.Stack)
			}
		}
		steps, preemptions, helped := 0, 0, 0
		mapsSeen := -1 // the first preemption comes before the victim's first look at the file
		var bursts []int
		for !victim.Done {
			ctl.Step(victim)
			fail(victim)
			steps++
			if steps > 200000 {
				t.Fatalf("the victim's Add did not return within %d of its own steps (%d preemptions, %d operations of the others in between)", steps, preemptions, helped)
			}
			// has the victim mapped the file again since the last preemption?
			maps := 0
			for _, c := range ctl.Log {
				if c.Thread == victim.ID && c.Op == "memmap" {
					maps++
				}
			}
			if maps > mapsSeen && strings.Contains(victim.Site, ":load32:") {
				mapsSeen = maps
				// the others complete R whole operations before the victim reads the limit again
				r := rapid.IntRange(0, 6).Draw(t, "othersOps")
				bursts = append(bursts, r)
				preemptions++
				for k := 0; k < r; k++ {
					var live []int
					for p, th := range others {
						if !th.Done {
							live = append(live, p)
						}
					}
					if len(live) == 0 {
						break
					}
					p := live[rapid.IntRange(0, len(live)-1).Draw(t, "which")]
					target := done[p] + 1
					for i := 0; done[p] < target && !others[p].Done; i++ {
						ctl.Step(others[p])
						fail(others[p])
						if i > 200000 {
							t.Fatalf("process other%d does not finish an Add", p)
						}
					}
					helped++
				}
				checkFile(fmt.Sprintf("after preemption %d", preemptions))
			}
		}
		for p, th := range others {
			for i := 0; !th.Done; i++ {
				ctl.Step(th)
				fail(th)
				if i > 2000000 {
					t.Fatalf("process other%d does not finish", p)
				}
			}
		}
		vhook.Uninstall()
		checkFile("at quiescence")
		data, _ := os.ReadFile(path)
		f, _ := vformat.Decode(data)
		if extra := victimC.state.load().extra(); extra != 0 || f.Count[victimName] != victimN {
			t.Fatalf("the victim's counter holds %d in the file and %d in memory, want %d persisted (file error state %v): it was made to fail by what the other processes did (they completed %v operations at its %d re-mappings)",
				f.Count[victimName], extra, victimN, files[0].err, bursts, preemptions)
		}
		for p := range progs {
			for j, o := range progs[p] {
				if extra := otherC[p][j].state.load().extra(); extra != 0 || f.Count[o.name] != o.n {
					t.Fatalf("process other%d: counter %q holds %d in the file and %d in memory, want %d", p, shortName(o.name), f.Count[o.name], extra, o.n)
				}
			}
		}
		vstats.Case(fmt.Sprintf("others=%d preemptions=%d bursts=%v pages=%d", nothers, preemptions, bursts, len(data)/vformat.Page), preemptions >= 1 && helped >= 1,
			fmt.Sprintf("preemptions:%d", min(preemptions, 4)), fmt.Sprintf("pages:%d", min(len(data)/vformat.Page, 8)))
	})
}
