package counter

// C04 — Processes sharing a counter file never corrupt it, even when killed.
//
// "Processes" are independent file values, each with its own descriptor and
// its own MAP_SHARED mapping of the same path, each single-threaded, run under
// the generated schedule on the rewritten copy; a kill parks the process for
// good at a yield point (nothing it deferred runs, what it holds stays held).

import (
	"fmt"
	"os"
	"path/filepath"
	"strings"
	"testing"
	"time"

	"golang.org/x/telemetry/internal/telemetry"
	"golang.org/x/telemetry/internal/verif/vformat"
	"golang.org/x/telemetry/internal/verif/vgen"
	"golang.org/x/telemetry/internal/verif/vhook"
	"golang.org/x/telemetry/internal/verif/vstats"
	"pgregory.net/rapid"
)

type c04Op struct {
	name int
	n    int64
}

var c04Seq int

func TestVerifC04Procs(t *testing.T) {
	defer vstats.Flush()
	base := t.TempDir()
	rapid.Check(t, func(t *rapid.T) {
		c04Seq++
		env := c03Setup(base, c04Seq, true)
		nprocs := rapid.IntRange(2, 4).Draw(t, "nprocs")
		files := make([]*file, nprocs)
		defer func() { env.teardown(files...) }()
		now := time.Date(2024, 3, 4, 12, 0, 0, 0, time.UTC)
		CounterTime = func() time.Time { return now }

		// names: shared, hash-colliding, long (three long names fill a page: concurrent extension)
		nnames := rapid.IntRange(1, 5).Draw(t, "nnames")
		// one case in four: many distinct long names, so that the processes together fill several pages and a
		// process can lose the race for the newest page several times within one call
		manyLong := rapid.IntRange(0, 3).Draw(t, "manyLongNames") == 0
		if manyLong {
			nnames = rapid.IntRange(8, 16).Draw(t, "nnamesLong")
		}
		names := make([]string, nnames)
		for i := range names {
			kind := rapid.IntRange(0, 3).Draw(t, "nameKind")
			if manyLong {
				kind = 0
			}
			switch kind {
			case 0, 3:
				names[i] = fmt.Sprintf("L%d/", i) + strings.Repeat("y", rapid.OneOf(rapid.SampledFrom([]int{2500, 4000, 4090}), rapid.IntRange(1500, 4090)).Draw(t, "longLen"))
			case 1:
				if i > 0 {
					names[i] = vgen.Colliding(names[0], i)
					break
				}
				fallthrough
			default:
				names[i] = fmt.Sprintf("n%d", i)
			}
		}
		// Usually every process opens the file before the race starts; in one case of three the counter file does
		// not exist yet and creating/opening it is the first step of every process, inside the schedule (and the
		// kill plan). The weekends file always exists beforehand: its first-run creation race is golang/go#68390
		// and not in this property.
		openInRace := rapid.IntRange(0, 2).Draw(t, "openInRace") == 0
		var path string
		for p := range files {
			files[p] = &file{}
			if openInRace {
				continue
			}
			files[p].rotate1()
			m := files[p].current.Load()
			if m == nil {
				t.Fatalf("process %d could not open the file: %v", p, files[p].err)
			}
			path = m.f.Name()
		}
		// Optionally fill most of the first page beforehand (sequentially, by process 0), so that
		// the racing record creations happen right at the point where the file has to grow.
		// (six or seven of them fill the second page as well: the processes that did not write them still have the
		// file mapped one page long when the race starts, while the file's end and its limit lie two pages further)
		prefill := rapid.SampledFrom([]int{0, 0, 2, 3, 3, 6, 7}).Draw(t, "prefill")
		if openInRace {
			prefill = 0
		}
		prefilled := map[string]uint64{}
		filler := 0
		if prefill > 0 {
			filler = rapid.IntRange(0, nprocs-1).Draw(t, "prefillBy")
		}
		for i := 0; i < prefill; i++ {
			name := fmt.Sprintf("fill%d/", i) + strings.Repeat("f", rapid.OneOf(rapid.IntRange(3700, 4080), rapid.IntRange(3000, 4080)).Draw(t, "fillLen"))
			(&Counter{name: name, file: files[filler]}).Add(1)
			prefilled[name] = 1
		}
		// one case in eight: every amount is close to 2^63, so that the shared value reaches its limit through several
		// processes adding at the same time (it must stick at 2^64-1, never wrap). An amount above 2^33-1 that is parked
		// in memory first is cut there (documented), so these cases assert the clauses that hold regardless: the value
		// never decreases, no process is credited with more than it began, the file stays well-formed.
		hugeAdds := rapid.IntRange(0, 7).Draw(t, "hugeAdds") == 0
		satAdd := func(a, b uint64) uint64 {
			if a+b < a {
				return ^uint64(0)
			}
			return a + b
		}
		progs := make([][]c04Op, nprocs)
		counters := make([]map[int]*Counter, nprocs)
		for p := range progs {
			counters[p] = map[int]*Counter{}
			maxOps := 6
			if manyLong {
				maxOps = 9
			}
			for j, n := 0, rapid.IntRange(1, maxOps).Draw(t, "nops"); j < n; j++ {
				op := c04Op{name: rapid.IntRange(0, nnames-1).Draw(t, "name"), n: rapid.Int64Range(1, 50).Draw(t, "n")}
				if hugeAdds {
					op.name = op.name % 2 // few names, so that the processes meet
					op.n = rapid.SampledFrom([]int64{1<<63 - 1, 1<<63 - 1, 1 << 62}).Draw(t, "hugeN")
				}
				progs[p] = append(progs[p], op)
				if counters[p][op.name] == nil {
					counters[p][op.name] = &Counter{name: names[op.name], file: files[p]}
				}
			}
		}
		// kill plan
		killAt := map[int]int{}
		for p := 0; p < nprocs; p++ {
			if rapid.IntRange(0, 2).Draw(t, "kill") == 0 {
				killAt[p] = rapid.OneOf(rapid.IntRange(1, 120), rapid.IntRange(1, 14)).Draw(t, "killStep") // the second range: while opening/creating
			}
		}
		begun := make([]map[int]uint64, nprocs)
		ctl := vhook.New()
		ctl.TickBudget = 5_000_000
		inOp := make([]bool, nprocs)
		for p := range progs {
			p := p
			begun[p] = map[int]uint64{}
			ctl.Go(fmt.Sprintf("proc%d", p), func() {
				if openInRace {
					inOp[p] = true
					files[p].rotate1()
					inOp[p] = false
				}
				for _, op := range progs[p] {
					begun[p][op.name] = satAdd(begun[p][op.name], uint64(op.n))
					inOp[p] = true
					counters[p][op.name].Add(op.n)
					inOp[p] = false
				}
			})
		}
		ctl.Install()
		defer vhook.Uninstall()

		attributed := make([]map[string]uint64, nprocs)
		for p := range attributed {
			attributed[p] = map[string]uint64{}
		}
		last := map[string]uint64{}
		for k, v := range prefilled {
			last[k] = v
		}
		var lastLimit uint32
		lastSize := 0
		killedInside := false
		interleavedCreate := false
		creatingFile, killedCreating := false, false
		var shortSnaps [][]byte    // contents seen while the file was shorter than its minimum length
		creating := map[int]bool{} // processes currently inside record creation (between space reservation and linking)
		procSteps := make([]int, nprocs)
		check := func(step int, th *vhook.Thread) {
			p := th.ID
			procSteps[p]++
			if th.Panic != nil {
				if th.IsFault {
					t.Fatalf("process %d: memory fault at %#x (in a closed mapping: %v)\n%s", p, th.FaultAddr, env.inClosed(th.FaultAddr), th.Stack)
				}
				t.Fatalf("process %d panicked at %s: %v\n%s", p, th.Site, th.Panic, th.Stack)
			}
			if strings.Contains(th.Site, "file.go") && (strings.Contains(th.Site, "CompareAndSwap") || strings.Contains(th.Site, "atomic.Store")) {
				creating[p] = true
				if len(creating) > 1 {
					interleavedCreate = true
				}
			}
			if !inOp[p] {
				delete(creating, p)
			}
			if path == "" {
				// the counter file is being created inside the schedule
				if ms, _ := filepath.Glob(filepath.Join(telemetry.Default.LocalDir(), "*.v1.count")); len(ms) > 0 {
					path = ms[0]
				} else {
					if k, ok := killAt[p]; ok && procSteps[p] == k && !th.Done {
						ctl.Kill(th)
						killedInside = true
					}
					return
				}
			}
			data, err := os.ReadFile(path)
			if err != nil {
				t.Fatalf("step %d: %v", step, err)
			}
			if len(data) < vformat.Page {
				// under creation: shorter than the minimum length, every byte written so far is header
				creatingFile = true
				shortSnaps = append(shortSnaps, data)
				if k, ok := killAt[p]; ok && procSteps[p] == k && !th.Done {
					ctl.Kill(th)
					killedInside = true
					killedCreating = true
				}
				return
			}
			f, err := vformat.Decode(data)
			if err != nil {
				t.Fatalf("step %d (process %d at %s): the shared file is not well-formed: %v", step, p, th.Site, err)
			}
			if probs := f.Validate(); len(probs) > 0 {
				t.Fatalf("step %d (process %d at %s): the shared file violates the layout: %s", step, p, th.Site, strings.Join(probs, "; "))
			}
			for _, snap := range shortSnaps {
				// whatever was in the file while it was being created is (part of) the header it has now
				for i, b := range snap {
					if b != 0 && (i >= int(f.HdrLen) || b != data[i]) {
						t.Fatalf("step %d: while the file was under creation (%d bytes) offset %d held %#x; the header is now %q", step, len(snap), i, b, data[:f.HdrLen])
					}
				}
			}
			shortSnaps = nil
			if f.Limit < lastLimit || len(data) < lastSize {
				t.Fatalf("step %d: limit/size went backwards (%#x -> %#x, %d -> %d)", step, lastLimit, f.Limit, lastSize, len(data))
			}
			lastLimit, lastSize = f.Limit, len(data)
			for name, v := range f.Count {
				if v < last[name] {
					t.Fatalf("step %d (process %d at %s): value of %q decreased %d -> %d", step, p, th.Site, shortName(name), last[name], v)
				}
				if d := v - last[name]; d > 0 {
					attributed[p][name] = satAdd(attributed[p][name], d)
				}
				last[name] = v
			}
			for name := range last {
				if _, ok := f.Count[name]; !ok {
					t.Fatalf("step %d (process %d at %s): counter %q disappeared from the file", step, p, th.Site, shortName(name))
				}
			}
			for i, name := range names {
				if attributed[p][name] > begun[p][i] {
					t.Fatalf("step %d (process %d at %s): process added %d to %q but has begun only %d", step, p, th.Site, attributed[p][name], shortName(name), begun[p][i])
				}
			}
			if k, ok := killAt[p]; ok && procSteps[p] == k && !th.Done {
				ctl.Kill(th)
				if inOp[p] {
					killedInside = true
				}
			}
		}
		switches, trace := c03Schedule(t, ctl, 100000, check)
		vhook.Uninstall()
		// quiescence: survivors
		killed := 0
		for p, th := range ctl.Threads {
			if th.Killed {
				killed++
				continue
			}
			for i, name := range names {
				c := counters[p][i]
				if c == nil {
					continue
				}
				extra := c.state.load().extra()
				if hugeAdds {
					if extra != 0 {
						t.Fatalf("quiescence: surviving process %d still holds %d for %q in memory (file error state: %v)", p, extra, shortName(name), files[p].err)
					}
					continue
				}
				if extra != 0 || attributed[p][name] != begun[p][i] {
					t.Fatalf("quiescence: surviving process %d has added %d of its %d to %q and still holds %d in memory (file error state: %v): it was made to fail by what another process did",
						p, attributed[p][name], begun[p][i], shortName(name), extra, files[p].err)
				}
			}
		}
		var ps []string
		for p, prog := range progs {
			var s []string
			for _, op := range prog {
				s = append(s, fmt.Sprintf("add(%s,%d)", shortName(names[op.name]), op.n))
			}
			k := ""
			if at, ok := killAt[p]; ok && ctl.Threads[p].Killed {
				k = fmt.Sprintf(" killed@%d", at)
			}
			ps = append(ps, "["+strings.Join(s, " ")+k+"]")
		}
		vstats.Case(fmt.Sprintf("procs=%s schedule(len %d, %d switches)=%v", strings.Join(ps, " "), len(trace), switches, tail(trace, 50)),
			interleavedCreate || killedInside, fmt.Sprintf("interleavedCreate:%v", interleavedCreate), fmt.Sprintf("killedInside:%v", killedInside),
			fmt.Sprintf("killed:%d", killed), fmt.Sprintf("pages:%d", lastSize/vformat.Page),
			fmt.Sprintf("openInRace:%v", openInRace), fmt.Sprintf("manyLongNames:%v", manyLong), fmt.Sprintf("hugeAdds:%v", hugeAdds), fmt.Sprintf("sawFileUnderCreation:%v", creatingFile), fmt.Sprintf("killedWhileCreating:%v", killedCreating))
		vstats.Note("scheduler_steps", int64(len(trace)))
	})
}
