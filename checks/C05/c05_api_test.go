package counter

// C05/C02 — the package-level entry points (Open with and without rotation,
// New, NewStack) on any mode file and directory state: they are what a host
// program calls, and they keep per-process state (openOnce, rotating,
// defaultFile) that the file-level tests do not go through.

import (
	"fmt"
	"os"
	"path/filepath"
	"strings"
	"sync"
	"testing"
	"time"

	"golang.org/x/telemetry/internal/telemetry"
	"golang.org/x/telemetry/internal/verif/vformat"
	"golang.org/x/telemetry/internal/verif/vhook"
	"golang.org/x/telemetry/internal/verif/vsnap"
	"golang.org/x/telemetry/internal/verif/vstats"
	"pgregory.net/rapid"
)

var c05APISeq int

func TestVerifC05PublicAPI(t *testing.T) {
	defer vstats.Flush()
	base := t.TempDir()
	rapid.Check(t, func(t *rapid.T) {
		c05APISeq++
		env := c03Setup(base, 50000+c05APISeq, true)
		// a fresh process: the package-level state is reset
		openOnce = sync.Once{}
		rotating = false
		defaultFile = file{}
		env.files = []*file{&defaultFile}
		defer env.teardown(&defaultFile)
		now := time.Date(2024, 3, 4, 12, 0, 0, 0, time.UTC)
		CounterTime = func() time.Time { return now }

		modeKind := rapid.SampledFrom([]string{"missing", "on", "on 2023-01-01", "local", "local 2022-02-02", "off", "off 2021-01-01", " off \n", "off\n", "garbage", "", "dir"}).Draw(t, "modeFile")
		modePath := filepath.Join(env.dir, "mode")
		os.Remove(modePath)
		switch modeKind {
		case "missing":
		case "dir":
			os.Mkdir(modePath, 0777)
		default:
			os.WriteFile(modePath, []byte(modeKind), 0666)
		}
		dirState := rapid.SampledFrom([]string{"ok", "ok", "missing", "empty", "letter", "nolocal", "nodir", "zerodir"}).Draw(t, "dirState")
		switch dirState {
		case "missing":
			os.Remove(filepath.Join(telemetry.Default.LocalDir(), "weekends"))
		case "empty":
			os.WriteFile(filepath.Join(telemetry.Default.LocalDir(), "weekends"), nil, 0666)
		case "letter":
			os.WriteFile(filepath.Join(telemetry.Default.LocalDir(), "weekends"), []byte("x\n"), 0666)
		case "nolocal":
			os.RemoveAll(telemetry.Default.LocalDir())
		case "nodir":
			os.RemoveAll(env.dir)
		case "zerodir":
			// what a process gets when no user configuration directory can be determined
			telemetry.Default = telemetry.Dir{}
		}
		off, _ := telemetry.Default.Mode()
		isOff := off == "off"
		rotate := rapid.Bool().Draw(t, "rotate")

		type op struct {
			kind string
			name string
			n    int64
		}
		var ops []op
		names := []string{"a", "b/c", "s"}
		for i, n := 0, rapid.IntRange(1, 8).Draw(t, "nops"); i < n; i++ {
			k := rapid.SampledFrom([]string{"open", "open", "add", "add", "add", "stack", "timer", "nextweek"}).Draw(t, "op")
			ops = append(ops, op{k, names[rapid.IntRange(0, 1).Draw(t, "name")], int64(rapid.IntRange(1, 9).Draw(t, "n"))})
		}
		var before map[string]string
		snapDir := env.dir
		if _, err := os.Stat(snapDir); err == nil {
			before = vsnap.Take(snapDir)
		}
		counters := map[string]*Counter{}
		begun := map[string]uint64{}
		var sc *StackCounter
		stackBegun := uint64(0)
		var timers []func()
		var closers []func()
		ctl := vhook.New()
		ctl.TickBudget = 2_000_000
		ctl.CallBudget = 400 * (len(ops) + 2)
		ctl.AfterFn = func(d time.Duration, f func()) { timers = append(timers, f) }
		opened := false
		pv, stack := ctl.Direct(func() {
			for _, o := range ops {
				switch o.kind {
				case "open":
					closers = append(closers, Open(rotate))
					opened = true
				case "add":
					c := counters[o.name]
					if c == nil {
						c = New(o.name)
						counters[o.name] = c
					}
					begun[o.name] += uint64(o.n)
					c.Add(o.n)
				case "stack":
					if sc == nil {
						sc = NewStack("s", 4)
					}
					stackBegun++
					sc.Inc()
				case "timer":
					// the rotation timer fires (if one was scheduled)
					if len(timers) > 0 {
						f := timers[0]
						timers = timers[1:]
						f()
					}
				case "nextweek":
					now = now.Add(8 * 24 * time.Hour)
				}
			}
		})
		var os_ []string
		for _, o := range ops {
			if o.kind == "add" {
				os_ = append(os_, fmt.Sprintf("add(%s,%d)", o.name, o.n))
			} else {
				os_ = append(os_, o.kind)
			}
		}
		desc := fmt.Sprintf("mode=%q dir=%s(%s) rotate=%v ops=%v", modeKind, dirState, telemetry.Default.LocalDir(), rotate, os_)
		if pv != nil {
			what := "panic"
			if _, ok := pv.(vhook.BudgetExceeded); ok {
				what = "unbounded loop (step or system-call budget exceeded)"
			}
			if _, ok := pv.(vhook.Deadlock); ok {
				what = "deadlock (the call would never return)"
			}
			t.Fatalf("%s: %s in the counter API: %v\n%s", desc, what, pv, stack)
		}
		// accounting: persisted (over all counter files of the directory) + pending never exceeds what was begun,
		// and equals it for plain counters once the file is open
		persisted := map[string]uint64{}
		nfiles := 0
		if ents, err := os.ReadDir(telemetry.Default.LocalDir()); err == nil {
			for _, e := range ents {
				if !strings.HasSuffix(e.Name(), ".v1.count") {
					continue
				}
				nfiles++
				data, err := os.ReadFile(filepath.Join(telemetry.Default.LocalDir(), e.Name()))
				if err != nil {
					continue
				}
				vf, err := vformat.Decode(data)
				if err != nil {
					t.Fatalf("%s: counter file %s is not well-formed: %v", desc, e.Name(), err)
				}
				if probs := vf.Validate(); len(probs) > 0 {
					t.Fatalf("%s: counter file %s violates the layout: %v", desc, e.Name(), probs)
				}
				for k, v := range vf.Count {
					persisted[k] += v
				}
			}
		}
		fileOpen := defaultFile.current.Load() != nil
		for name, b := range begun {
			extra := counters[name].state.load().extra()
			if persisted[name]+extra > b {
				t.Fatalf("%s: counter %q: persisted %d + pending %d exceeds the %d begun", desc, name, persisted[name], extra, b)
			}
			if fileOpen && (extra != 0 || persisted[name] != b) {
				t.Fatalf("%s: a counter file is open, but counter %q has %d persisted and %d pending of %d", desc, name, persisted[name], extra, b)
			}
		}
		if isOff {
			// mode off: the counter API creates, changes and removes nothing
			if fileOpen || nfiles > 0 {
				t.Fatalf("%s: mode is off but a counter file was opened/created", desc)
			}
			if before != nil {
				if diff := vsnap.Diff(before, vsnap.Take(snapDir), nil); len(diff) > 0 {
					t.Fatalf("%s: mode is off but the telemetry directory changed: %v", desc, diff)
				}
			} else if _, err := os.Stat(snapDir); err == nil {
				t.Fatalf("%s: mode is off but the telemetry directory was created", desc)
			}
		}
		for _, c := range closers {
			c()
		}
		vstats.Case(desc, opened && len(begun) > 0, fmt.Sprintf("off:%v", isOff), fmt.Sprintf("rotate:%v", rotate), fmt.Sprintf("fileOpen:%v", fileOpen), "mode:"+strings.TrimSpace(modeKind))
	})
}
