package counter

// C05 — Telemetry failures never crash, hang or block the host program
// (counter layer: fault enumeration over the file-system calls of a generated
// life-cycle scenario, and corruptions of a counter file at rest).
//
// Runs on a copy of internal/counter and internal/telemetry rewritten by
// vrewrite (fs, loops): every os / *os.File / memmap / munmap call consults the
// controller's fault plan, every loop iteration ticks the step counter.

import (
	"encoding/binary"
	"fmt"
	"os"
	"path/filepath"
	"sort"
	"strings"
	"syscall"
	"testing"
	"time"

	"golang.org/x/telemetry/internal/telemetry"
	"golang.org/x/telemetry/internal/verif/vformat"
	"golang.org/x/telemetry/internal/verif/vgen"
	"golang.org/x/telemetry/internal/verif/vhook"
	"golang.org/x/telemetry/internal/verif/vstats"
	"pgregory.net/rapid"
)

var c05Errnos = []syscall.Errno{syscall.ENOENT, syscall.EACCES, syscall.EROFS, syscall.ENOSPC, syscall.EIO, syscall.EMFILE, syscall.ENOMEM}

type c05Op struct {
	kind string // open, add, rotate, read, rmfile, rmdir, setmode
	name string
	n    int64
}

func (o c05Op) String() string {
	if o.kind == "add" || o.kind == "foreign" {
		return fmt.Sprintf("%s(%s,%d)", o.kind, shortName(o.name), o.n)
	}
	return o.kind
}

type c05Fault struct {
	idx    int
	errno  syscall.Errno
	short  bool
	noop   bool // WriteAt reports success without writing
	sticky bool // from call idx on, every call of the same operation fails (disk full, read-only file system)
}

type c05Result struct {
	calls       []vhook.Call
	panicVal    any
	stack       string
	ticks       int64
	persisted   map[string]uint64
	extra       map[string]uint64
	begun       map[string]uint64
	undecodable int
	hit         []bool // which planned faults were reached
}

var c05Seq int

// c05CallBudget is the number of intercepted file-system calls one scenario run may make (0: unlimited); the
// fault test sets it to a multiple of what the fault-free run of the scenario needed.
var c05CallBudget int

// c05Run executes the scenario in a fresh directory under the given fault plan.
func c05Run(t *rapid.T, base string, weekends string, ops []c05Op, faults []c05Fault) *c05Result {
	c05Seq++
	env := c03Setup(base, c05Seq, true)
	f := &file{}
	defer env.teardown(f)
	// the state the directory is found in: week-end setting missing (the library creates it), valid, empty, blank or garbage
	wpath := filepath.Join(telemetry.Default.LocalDir(), "weekends")
	if weekends == "missing" {
		os.Remove(wpath)
	} else {
		os.WriteFile(wpath, []byte(weekends), 0666)
	}
	now := time.Date(2024, 3, 4, 12, 0, 0, 0, time.UTC)
	CounterTime = func() time.Time { return now }
	res := &c05Result{begun: map[string]uint64{}, extra: map[string]uint64{}, hit: make([]bool, len(faults))}
	counters := map[string]*Counter{}
	// a second process using the same directory (its own file object, mapping and counters)
	other := &file{}
	defer func() {
		if m := other.current.Load(); m != nil {
			m.close()
		}
	}()
	foreign := map[string]*Counter{}
	ctl := vhook.New()
	ctl.KeepLog = true
	ctl.TickBudget = 2_000_000
	ctl.CallBudget = c05CallBudget // bounds retries that are not loops (recursion) as well
	ctl.IntnFn = func(n int) int { return 3 % n }
	stickyOp := map[int]string{}
	ctl.Plan = func(c *vhook.Call) {
		for i, fl := range faults {
			if fl.sticky && c.Idx == fl.idx {
				stickyOp[i] = c.Op
			}
			if c.Idx == fl.idx || (fl.sticky && c.Idx > fl.idx && stickyOp[i] == c.Op) {
				res.hit[i] = true
				if fl.noop && c.Op == "File.WriteAt" {
					c.Noop = true
				} else if fl.short && (strings.Contains(c.Op, "Write")) {
					c.Short = true
				} else {
					c.Inject = fl.errno
				}
			}
		}
	}
	res.panicVal, res.stack = ctl.Direct(func() {
		for _, op := range ops {
			switch op.kind {
			case "open":
				f.rotate1()
			case "rotate":
				now = now.Add(8 * 24 * time.Hour)
				f.rotate1()
			case "add":
				c := counters[op.name]
				if c == nil {
					c = &Counter{name: op.name, file: f}
					counters[op.name] = c
				}
				res.begun[op.name] += uint64(op.n)
				c.Add(op.n)
			case "foreign":
				// the other process counts: it opens the week's file if it has not yet, and may grow it
				if other.current.Load() == nil {
					other.rotate1()
				}
				c := foreign[op.name]
				if c == nil {
					c = &Counter{name: op.name, file: other}
					foreign[op.name] = c
				}
				res.begun[op.name] += uint64(op.n)
				c.Add(op.n)
			case "read":
				for _, c := range counters {
					Read(c)
					break
				}
			case "rmfile":
				if m := f.current.Load(); m != nil {
					os.Remove(m.f.Name())
				}
			case "rmdir":
				os.RemoveAll(telemetry.Default.Dir())
			case "setmode":
				telemetry.Default.SetModeAsOf("local", now)
				telemetry.Default.Mode()
			}
		}
	})
	res.calls = ctl.Log
	res.ticks = ctl.Ticks
	for name, c := range counters {
		res.extra[name] = c.state.load().extra()
	}
	for name, c := range foreign {
		res.extra[name] += c.state.load().extra()
	}
	res.persisted = map[string]uint64{}
	ents, _ := os.ReadDir(telemetry.Default.LocalDir())
	for _, e := range ents {
		if !strings.HasSuffix(e.Name(), ".count") {
			continue
		}
		data, err := os.ReadFile(filepath.Join(telemetry.Default.LocalDir(), e.Name()))
		if err != nil || len(data) < vformat.Page {
			continue
		}
		vf, err := vformat.Decode(data)
		if err != nil {
			res.undecodable++
			continue
		}
		for k, v := range vf.Count {
			res.persisted[k] += v
		}
	}
	return res
}

func c05Judge(t *rapid.T, what string, ops []c05Op, res *c05Result, exact bool) {
	if res.panicVal != nil {
		kind := "panic"
		if _, ok := res.panicVal.(vhook.BudgetExceeded); ok {
			kind = "unbounded loop (tick budget exceeded)"
		}
		t.Fatalf("%s: %s escaped: %v\nops: %v\n%s", what, kind, res.panicVal, ops, res.stack)
	}
	for name, b := range res.begun {
		got := res.persisted[name] + res.extra[name]
		if got > b {
			t.Fatalf("%s: counter %q persisted %d + pending %d exceeds the %d begun\nops: %v", what, shortName(name), res.persisted[name], res.extra[name], b, ops)
		}
		if exact && got != b {
			t.Fatalf("%s: counter %q persisted %d + pending %d != %d begun (no file was deleted and every file decodes: a failure may only leave counts in memory)\nops: %v",
				what, shortName(name), res.persisted[name], res.extra[name], b, ops)
		}
	}
}

func c05Scenario(t *rapid.T) ([]c05Op, bool) {
	names := []string{"a", "b/c", "L1/" + strings.Repeat("x", 4000), "L2/" + strings.Repeat("y", 4000), "L3/" + strings.Repeat("z", 4000), "L4/" + strings.Repeat("w", 4000)}
	n := rapid.IntRange(2, 10).Draw(t, "nops")
	var ops []c05Op
	deletes := false
	openFirst := rapid.Bool().Draw(t, "openFirst")
	if openFirst {
		ops = append(ops, c05Op{kind: "open"})
	}
	switch rapid.IntRange(0, 5).Draw(t, "fillPage") {
	case 0, 1:
		// four 4000-byte names: the fourth does not fit into the first page, the file has to grow
		for _, nm := range names[2:6] {
			ops = append(ops, c05Op{kind: "add", name: nm, n: 1})
		}
	case 2:
		// eight to eleven of them: the file has to grow several times; when the file is opened only afterwards,
		// all of them are written out by that one call (growth while the counters of an earlier growth are being written out)
		for i, k := 0, rapid.IntRange(8, 11).Draw(t, "manyLong"); i < k; i++ {
			ops = append(ops, c05Op{kind: "add", name: fmt.Sprintf("M%d/", i) + strings.Repeat("m", rapid.SampledFrom([]int{4000, 4080, 2500}).Draw(t, "manyLongLen")), n: int64(i + 1)})
		}
		if !openFirst && rapid.Bool().Draw(t, "openAfterFill") {
			ops = append(ops, c05Op{kind: "open"})
		}
		vstats.Label("manyLongNamesPending")
	}
	if rapid.IntRange(0, 3).Draw(t, "foreignGrowth") == 0 {
		// another process using the same directory grows the week's file while this one has it mapped; then this
		// process counts the same things: their records lie beyond what it has mapped, it has to map the file again
		if !openFirst {
			ops = append(ops, c05Op{kind: "open"})
		}
		k := rapid.IntRange(4, 8).Draw(t, "foreignNames")
		for i := 0; i < k; i++ {
			ops = append(ops, c05Op{kind: "foreign", name: fmt.Sprintf("F%d/", i) + strings.Repeat("f", 4000), n: 1})
		}
		for i := 0; i < k; i++ {
			if rapid.Bool().Draw(t, "ownAddOfForeign") {
				ops = append(ops, c05Op{kind: "add", name: fmt.Sprintf("F%d/", i) + strings.Repeat("f", 4000), n: 2})
			}
		}
		vstats.Label("foreignGrowth")
	}
	for i := 0; i < n; i++ {
		k := rapid.SampledFrom([]string{"add", "add", "add", "add", "open", "rotate", "read", "rmfile", "rmdir", "setmode"}).Draw(t, "op")
		op := c05Op{kind: k}
		if k == "add" {
			op.name = rapid.SampledFrom(names).Draw(t, "name")
			op.n = rapid.Int64Range(1, 9).Draw(t, "n")
		}
		if k == "rmfile" || k == "rmdir" {
			deletes = true
		}
		ops = append(ops, op)
	}
	return ops, deletes
}

// TestVerifC05Faults: every single call of a generated scenario fails in turn
// with every errno of the menu (and a short write where applicable); pairs of
// failing calls are drawn (quick) or enumerated (thorough).
func TestVerifC05Faults(t *testing.T) {
	defer vstats.Flush()
	base := t.TempDir()
	thorough := os.Getenv("VERIF_TIER") == "thorough"
	rapid.Check(t, func(t *rapid.T) {
		ops, deletes := c05Scenario(t)
		weekends := rapid.SampledFrom([]string{"missing", "missing", "3\n", "3\n", "", " \n", "x", "\x00"}).Draw(t, "weekends")
		c05CallBudget = 50000
		clean := c05Run(t, base, weekends, ops, nil)
		c05Judge(t, "fault-free run", ops, clean, !deletes && clean.undecodable == 0)
		n := len(clean.calls)
		c05CallBudget = 20*n + 2000
		vstats.NoteMax("max_calls_per_scenario", int64(n))
		desc := fmt.Sprintf("weekends=%q ops=%v calls=%d", weekends, ops, n)
		runs := 0
		// singles: every call x every errno (+ short write)
		for i := 0; i < n; i++ {
			kinds := len(c05Errnos)
			if strings.Contains(clean.calls[i].Op, "Write") {
				kinds++
			}
			for e := 0; e < kinds; e++ {
				fl := c05Fault{idx: i}
				if e < len(c05Errnos) {
					fl.errno = c05Errnos[e]
				} else {
					fl.short = true
				}
				res := c05Run(t, base, weekends, ops, []c05Fault{fl})
				runs++
				what := fmt.Sprintf("call #%d %s(%s) failing with %v (short=%v)", i, clean.calls[i].Op, filepath.Base(clean.calls[i].Arg), fl.errno, fl.short)
				c05Judge(t, what, ops, res, !deletes && res.undecodable == 0 && !fl.short)
				changed := len(res.calls) != n
				if !changed {
					for k := range res.calls {
						if res.calls[k].Op != clean.calls[k].Op || res.calls[k].Err != clean.calls[k].Err {
							changed = true
							break
						}
					}
				}
				vstats.Case(desc+" | "+what, res.hit[0] && changed, "single:"+clean.calls[i].Op)
			}
		}
		// persistent failures: from call i on, every call of that operation fails (disk full, read-only file system,
		// a directory that is gone and cannot be made again, no file descriptors left)
		for i := 0; i < n; i++ {
			for _, e := range []syscall.Errno{syscall.ENOSPC, syscall.EROFS, syscall.ENOENT, syscall.EMFILE} {
				res := c05Run(t, base, weekends, ops, []c05Fault{{idx: i, errno: e, sticky: true}})
				runs++
				what := fmt.Sprintf("every %s from call #%d on failing with %v", clean.calls[i].Op, i, e)
				c05Judge(t, what, ops, res, !deletes && res.undecodable == 0)
				vstats.Case(desc+" | "+what, res.hit[0], "sticky:"+clean.calls[i].Op)
			}
		}
		// a file system that reports successful writes but does not extend the file (go.dev/issue/68311)
		for i := 0; i < n; i++ {
			if clean.calls[i].Op != "File.WriteAt" {
				continue
			}
			for _, sticky := range []bool{false, true} {
				res := c05Run(t, base, weekends, ops, []c05Fault{{idx: i, noop: true, sticky: sticky, errno: syscall.EIO}})
				runs++
				what := fmt.Sprintf("WriteAt #%d (sticky=%v) reporting success without writing", i, sticky)
				c05Judge(t, what, ops, res, false)
				vstats.Case(desc+" | "+what, res.hit[0], "noop-write")
			}
		}
		// pairs (i<j) with j ranging over the calls of the execution after fault i
		type pair struct{ i, j int }
		var pairs []pair
		if thorough {
			for i := 0; i < n; i++ {
				first := c05Run(t, base, weekends, ops, []c05Fault{{idx: i, errno: syscall.EIO}})
				for j := i + 1; j < len(first.calls); j++ {
					pairs = append(pairs, pair{i, j})
				}
			}
		} else if n > 1 {
			for k := 0; k < 12; k++ {
				i := rapid.IntRange(0, n-2).Draw(t, "pairI")
				j := rapid.IntRange(i+1, n+5).Draw(t, "pairJ")
				pairs = append(pairs, pair{i, j})
			}
		}
		for k, p := range pairs {
			e1 := c05Errnos[(p.i+k)%len(c05Errnos)]
			e2 := c05Errnos[(p.j+2*k)%len(c05Errnos)]
			res := c05Run(t, base, weekends, ops, []c05Fault{{idx: p.i, errno: e1}, {idx: p.j, errno: e2}})
			runs++
			what := fmt.Sprintf("calls #%d and #%d failing with %v and %v", p.i, p.j, e1, e2)
			c05Judge(t, what, ops, res, !deletes && res.undecodable == 0)
			vstats.Case(desc+" | "+what, res.hit[0] && res.hit[1], "pair")
		}
		vstats.Note("fault_runs", int64(runs))
	})
}

// ---------- corruptions at rest ----------

func c05Corrupt(t *rapid.T, data []byte) string {
	vf, err := vformat.Decode(data)
	if err != nil {
		t.Fatalf("harness: %v", err)
	}
	return c05CorruptWith(t, data, vf)
}

// c05CorruptWith damages data; vf describes the file before any damage.
func c05CorruptWith(t *rapid.T, data []byte, vf *vformat.File) string {
	put32 := func(off uint32, v uint32) {
		if int(off)+4 <= len(data) {
			binary.LittleEndian.PutUint32(data[off:], v)
		}
	}
	hostile := func(label string) uint32 {
		return rapid.OneOf(
			rapid.SampledFrom([]uint32{0, 1, 4, 31, 32, 0x800, 0x8e0, 0x3ff0, 0x3ffc, 0x4000, 0x4001, 0xFFFFFFF0, 0xFFFFFFFF, 0x80000000, 0x00FFFFFF, 0xFF000001,
				0xFFFFC000, 0xFFFFC020, 0xFFFFBFE0, 0xFFFFFFE0, 0xFFFFFFC0, 0x7FFFFFE0, 0x7FFFC020}),
			rapid.Uint32Range(0, uint32(len(data))+64),
			rapid.Uint32Range(0xFFFF0000, 0xFFFFFFFF), // where 32-bit offset arithmetic wraps around
			rapid.Uint32Range(0xFFFFFFC0, 0xFFFFFFFF), // ... by adding a small field offset
		).Draw(t, label)
	}
	recOff := func(label string) uint32 {
		if len(vf.Records) == 0 {
			return hostile(label)
		}
		r := vf.Records[rapid.IntRange(0, len(vf.Records)-1).Draw(t, label+"Rec")]
		return r.Off + uint32(rapid.SampledFrom([]int{0, 0, 0, 8, 16, 32}).Draw(t, label+"Delta"))
	}
	kind := rapid.SampledFrom([]string{"limit", "head", "head", "next", "next", "next-self", "next-cycle", "namelen", "hdrlen", "bytes", "truncate", "truncate-page", "truncate-ospage", "truncate-ospage", "zero", "two-fields"}).Draw(t, "damage")
	if kind == "two-fields" {
		// two of the single-field damages at once
		a := c05CorruptWith(t, data, vf)
		b := c05CorruptWith(t, data, vf)
		return a + "+" + b
	}
	switch kind {
	case "limit":
		put32(vf.HdrLen, hostile("limit"))
	case "head":
		b := rapid.Uint32Range(0, 511).Draw(t, "bucket")
		if len(vf.Records) > 0 && rapid.Bool().Draw(t, "usedBucket") {
			b = vf.Records[rapid.IntRange(0, len(vf.Records)-1).Draw(t, "hb")].Bucket
		}
		v := hostile("headVal")
		if rapid.Bool().Draw(t, "headToRecord") {
			v = recOff("head")
		}
		put32(vf.HdrLen+4+4*b, v)
	case "next":
		if len(vf.Records) > 0 {
			r := vf.Records[rapid.IntRange(0, len(vf.Records)-1).Draw(t, "nr")]
			v := hostile("nextVal")
			if rapid.Bool().Draw(t, "nextToRecord") {
				v = recOff("next")
			}
			put32(r.Off+12, v)
		}
	case "next-self":
		if len(vf.Records) > 0 {
			r := vf.Records[rapid.IntRange(0, len(vf.Records)-1).Draw(t, "nr")]
			put32(r.Off+12, r.Off)
		}
	case "next-cycle":
		if len(vf.Records) > 1 {
			a := vf.Records[rapid.IntRange(0, len(vf.Records)-1).Draw(t, "ca")]
			b := vf.Records[rapid.IntRange(0, len(vf.Records)-1).Draw(t, "cb")]
			put32(a.Off+12, b.Off)
			put32(b.Off+12, a.Off)
			// make sure the cycle is reachable from a's bucket head
			put32(vf.HdrLen+4+4*a.Bucket, a.Off)
		}
	case "namelen":
		if len(vf.Records) > 0 {
			r := vf.Records[rapid.IntRange(0, len(vf.Records)-1).Draw(t, "nr")]
			put32(r.Off+8, hostile("nameLen"))
		}
	case "hdrlen":
		put32(28, hostile("hdrLen"))
	case "bytes":
		for i, k := 0, rapid.IntRange(1, 20).Draw(t, "nbytes"); i < k; i++ {
			data[rapid.IntRange(0, len(data)-1).Draw(t, "pos")] = rapid.Byte().Draw(t, "byte")
		}
	case "zero":
		from := rapid.IntRange(0, len(data)-1).Draw(t, "zeroFrom")
		for i := from; i < len(data) && i < from+rapid.IntRange(1, 4096).Draw(t, "zeroLen"); i++ {
			data[i] = 0
		}
	}
	return kind
}

// TestVerifC05Corrupt: a valid file produced by the library is closed, damaged
// at rest, and reopened by a fresh process that then increments new and
// existing names.
// c05ZeroFrom reports whether the file holds only zero bytes from the allocation limit on.
func c05ZeroFrom(data []byte, hdrLen, limit uint32) bool {
	if limit == 0 {
		limit = vformat.FirstRecord(hdrLen) // no record handed out yet
	}
	for i := int(limit); i < len(data); i++ {
		if data[i] != 0 {
			return false
		}
	}
	return true
}

func TestVerifC05Corrupt(t *testing.T) {
	defer vstats.Flush()
	base := t.TempDir()
	rapid.Check(t, func(t *rapid.T) {
		c05Seq++
		env := c03Setup(base, c05Seq, true)
		f1 := &file{}
		var f2 *file
		defer func() { env.teardown(f1, f2) }()
		now := time.Date(2024, 3, 4, 12, 0, 0, 0, time.UTC)
		CounterTime = func() time.Time { return now }
		// phase 1: the library writes a healthy file
		f1.rotate1()
		m := f1.current.Load()
		if m == nil {
			t.Fatalf("harness: open failed: %v", f1.err)
		}
		path := m.f.Name()
		names := vgen.DistinctNames(t, 1, 8, "pre")
		if rapid.Bool().Draw(t, "twoPages") {
			for i := 0; i < 4; i++ {
				names = append(names, fmt.Sprintf("big%d/", i)+strings.Repeat("q", 4000))
			}
		}
		before := map[string]uint64{}
		for _, n := range names {
			(&Counter{name: n, file: f1}).Add(5)
			before[n] = 5
		}
		m = f1.current.Load()
		m.close()
		f1.current.Store(nil)
		data, err := os.ReadFile(path)
		if err != nil {
			t.Fatal(err)
		}
		kind := c05Corrupt(t, data)
		switch kind {
		case "truncate":
			data = data[:rapid.IntRange(0, len(data)).Draw(t, "truncTo")]
		case "truncate-page":
			data = data[:rapid.IntRange(0, len(data)/vformat.Page).Draw(t, "truncPages")*vformat.Page]
		case "truncate-ospage":
			// a multiple of the operating system's page size that is not a multiple of the file's 16 KiB pages:
			// the mapping ends exactly at the end of the file, in the middle of whatever record lies there
			data = data[:rapid.IntRange(1, len(data)/4096).Draw(t, "truncOSPages")*4096]
		}
		largeHead := ""
		// One case in eight: the file is large at rest (its tail a hole of zeros, as left by a process that reserved
		// much and was killed, or by a copy). Offsets and lengths that are out of range for a file of a page or two
		// lie inside this one, and sums of them that wrap around 32 bits land inside it as well.
		large := len(data) >= vformat.Page && rapid.IntRange(0, 7).Draw(t, "largeAtRest") == 0
		if large && rapid.Bool().Draw(t, "largeHostileHead") {
			if vf0, err := vformat.Decode(data); err == nil {
				name := names[rapid.IntRange(0, len(names)-1).Draw(t, "largeHeadOf")]
				v := rapid.OneOf(rapid.Uint32Range(0xFFFFFFE0, 0xFFFFFFFF), rapid.Uint32Range(0x00700000, 0x00800000)).Draw(t, "largeHead")
				if off := int(vf0.HdrLen + 4 + 4*vformat.Bucket(name)); off+4 <= len(data) {
					binary.LittleEndian.PutUint32(data[off:], v)
					largeHead = name
					kind += "+head"
				}
			}
		}
		if err := os.WriteFile(path, data, 0666); err != nil {
			t.Fatal(err)
		}
		if large {
			if err := os.Truncate(path, rapid.SampledFrom([]int64{8 << 20, 16<<20 + 16384, 24 << 20}).Draw(t, "restSize")); err != nil {
				t.Fatal(err)
			}
			kind += "+large"
			vstats.Label("largeAtRest")
		}
		wellFormedAfter := false
		if vf, err := vformat.Decode(data); err == nil && len(vf.Validate()) == 0 && c05ZeroFrom(data, vf.HdrLen, vf.Limit) {
			// the damage left a well-formed file (possibly with other values or fewer records):
			// what it holds now is the baseline. Well-formed includes that the space not handed out yet is
			// empty: a lowered limit (or a dropped chain) leaves old records in the space that new records
			// are carved from, and their bytes become the initial value of a new counter - at-rest damage
			// to that counter's value, not a failure of the exact accounting this clause is about.
			wellFormedAfter = true
			before = map[string]uint64{}
			for k, v := range vf.Count {
				before[k] = v
			}
		}
		// phase 2: a fresh process opens the damaged file and counts
		f2 = &file{}
		nops := rapid.IntRange(1, 6).Draw(t, "nops")
		type add struct {
			name string
			n    int64
		}
		var adds []add
		for i := 0; i < nops; i++ {
			var name string
			if rapid.Bool().Draw(t, "existing") {
				name = names[rapid.IntRange(0, len(names)-1).Draw(t, "which")]
			} else {
				name = rapid.OneOf(vgen.Name(), rapid.Just("fresh/"+strings.Repeat("n", 3900))).Draw(t, "newName")
				// a name in the bucket of an existing record walks its (possibly damaged) chain
				if rapid.Bool().Draw(t, "sameBucket") {
					name = vgen.Colliding(names[rapid.IntRange(0, len(names)-1).Draw(t, "cb")], i)
				}
			}
			if name == "" || len(name) > 4096 {
				name = "z"
			}
			adds = append(adds, add{name, int64(rapid.IntRange(1, 9).Draw(t, "n"))})
		}
		if largeHead != "" {
			adds = append(adds, add{largeHead, 1})
		}
		counters := map[string]*Counter{}
		begun := map[string]uint64{}
		ctl := vhook.New()
		// Every chain walk is bounded by the number of records that fit into the mapping, and a damaged limit can
		// make the library grow the file (the harness cuts growth off at 64 MiB): the budget is several walks of the
		// largest possible mapping per operation. It is a bound on "unbounded", not a performance requirement.
		ctl.TickBudget = int64((64<<20)/32+1024) * 8 * int64(len(adds)+2)
		ctl.CallBudget = 200 * (len(adds) + 2) // opening takes about 15 intercepted calls, an Add at most 10 re-mappings of 5 calls each
		pv, stack := ctl.Direct(func() {
			f2.rotate1()
			for _, a := range adds {
				c := counters[a.name]
				if c == nil {
					c = &Counter{name: a.name, file: f2}
					counters[a.name] = c
				}
				begun[a.name] += uint64(a.n)
				c.Add(a.n)
			}
			for _, c := range counters {
				Read(c)
				break
			}
		})
		desc := fmt.Sprintf("damage=%s size=%d names=%d adds=%d", kind, len(data), len(names), len(adds))
		if pv != nil {
			what := "panic"
			if _, ok := pv.(vhook.BudgetExceeded); ok {
				what = "unbounded loop (step or system-call budget exceeded)"
			}
			if _, ok := pv.(vhook.Deadlock); ok {
				what = "deadlock (the call would never return)"
			}
			t.Fatalf("%s: %s while using a counter file damaged at rest: %v\n%s", desc, what, pv, stack)
		}
		opened := f2.current.Load() != nil
		// accounting
		after, derr := os.ReadFile(path)
		var vf *vformat.File
		if derr == nil && len(after) >= vformat.Page {
			vf, _ = vformat.Decode(after)
		}
		for name, b := range begun {
			extra := counters[name].state.load().extra()
			if extra > b {
				t.Fatalf("%s: pending amount %d of %q exceeds the %d begun", desc, extra, shortName(name), b)
			}
			if vf != nil && wellFormedAfter {
				if got := vf.Count[name] + extra; got != before[name]+b {
					t.Fatalf("%s: the damage left the file well-formed, but counter %q is %d (+%d pending), want %d", desc, shortName(name), vf.Count[name], extra, before[name]+b)
				}
			}
		}
		if vf != nil && wellFormedAfter {
			for name, v := range before {
				if _, touched := begun[name]; !touched && vf.Count[name] != v {
					t.Fatalf("%s: counter %q was not incremented but changed %d -> %d", desc, shortName(name), v, vf.Count[name])
				}
			}
		}
		var ks []string
		for k := range begun {
			ks = append(ks, shortName(k))
		}
		sort.Strings(ks)
		vstats.Case(desc+fmt.Sprintf(" opened=%v adds=%v", opened, ks), opened && !wellFormedAfter, "damage:"+kind, fmt.Sprintf("opened:%v", opened), fmt.Sprintf("stillWellFormed:%v", wellFormedAfter))
		vstats.NoteMax("max_ticks_per_case", ctl.Ticks)
	})
}

// TestVerifC05LimitWrap is the fixed regression case for a defect found in this
// class: an allocation limit damaged into the top 16 KiB of the 32-bit range
// made mappedFile.newCounter spin forever (the page rounding in extend wraps to 0).
func TestVerifC05LimitWrap(t *testing.T) {
	defer vstats.Flush()
	base := t.TempDir()
	for i, limit := range []uint32{0xFFFFC020, 0xFFFFC001, 0xFFFFFFC0, 0xFFFFFFE0, 0xFFFFFFF0, 0xFFFFBFE0} {
		env := c03Setup(base, 1000+i, true)
		f1, f2 := &file{}, &file{}
		now := time.Date(2024, 3, 4, 12, 0, 0, 0, time.UTC)
		CounterTime = func() time.Time { return now }
		f1.rotate1()
		m := f1.current.Load()
		if m == nil {
			t.Fatalf("harness: open failed: %v", f1.err)
		}
		path := m.f.Name()
		(&Counter{name: "old", file: f1}).Add(5)
		m = f1.current.Load()
		hdrLen := m.hdrLen
		m.close()
		f1.current.Store(nil)
		data, err := os.ReadFile(path)
		if err != nil {
			t.Fatal(err)
		}
		binary.LittleEndian.PutUint32(data[hdrLen:], limit)
		if err := os.WriteFile(path, data, 0666); err != nil {
			t.Fatal(err)
		}
		ctl := vhook.New()
		ctl.TickBudget = 200000
		ctl.CallBudget = 400
		pv, stack := ctl.Direct(func() {
			f2.rotate1()
			(&Counter{name: "fresh", file: f2}).Add(1)
		})
		env.teardown(f1, f2)
		vstats.Case(fmt.Sprintf("limit=%#x", limit), true, "regress-limit-wrap")
		if pv != nil {
			what := "panic"
			if _, ok := pv.(vhook.BudgetExceeded); ok {
				what = "unbounded loop (step or system-call budget exceeded)"
			}
			if _, ok := pv.(vhook.Deadlock); ok {
				what = "deadlock (the call would never return)"
			}
			t.Fatalf("allocation limit damaged to %#x: %s while adding a new counter: %v\n%s", limit, what, pv, stack)
		}
	}
}
