package upload

// C05 — the exported entry point upload.Run on arbitrary directory contents:
// stray and oddly named entries in local/ and upload/, unusual mode files, any
// server answer. Run fetches the upload configuration from a local file proxy
// (no network). It must return - an error or nil - and never let a panic out.

import (
	"fmt"
	"io"
	"net/http"
	"net/http/httptest"
	"os"
	"path/filepath"
	"runtime"
	"strings"
	"sync/atomic"
	"testing"
	"time"

	"golang.org/x/telemetry/internal/configtest"
	"golang.org/x/telemetry/internal/telemetry"
	"golang.org/x/telemetry/internal/verif/vgen"
	"golang.org/x/telemetry/internal/verif/vstats"
	"pgregory.net/rapid"
)

var c05rStatus, c05rRequests atomic.Int64

var c05rStray = []string{"a.json", ".json", "x.json", "local.json", "local..json", "12345678.json", "123456789.json", "2024-13-45.json", "0000-00-00.json",
	"local.2024-01-01.json", "local.x.json", "abc.v1.count", ".v1.count", "x.v1.count.json", "weekends", "upload.token", "notes.txt", "2024-01-01.json.lock"}

func TestVerifC05RunExported(t *testing.T) {
	defer vstats.Flush()
	cfg := &telemetry.UploadConfig{GOOS: []string{"linux", "darwin", "windows"}, GOARCH: []string{"amd64", "arm64", "386"}, GoVersion: []string{"go1.21.0", "go1.22.1", "devel"}, SampleRate: 1,
		Programs: []*telemetry.ProgramConfig{{Name: "cmd/go", Versions: []string{"v1.2.3", "go1.22.1", "devel", ""},
			Counters: []telemetry.CounterConfig{{Name: "a/b", Rate: 1}, {Name: "chart:{b1,b2,b3}", Rate: 1}}, Stacks: []telemetry.CounterConfig{{Name: "stk", Rate: 1, Depth: 4}}}}}
	env := configtest.LocalProxyEnv(t, cfg, "v1.2.3")
	base := t.TempDir()
	// one listening server for the whole test (a server per case exhausts the ephemeral ports under load)
	srv := httptest.NewServer(http.HandlerFunc(func(w http.ResponseWriter, r *http.Request) {
		io.Copy(io.Discard, r.Body)
		c05rRequests.Add(1)
		w.WriteHeader(int(c05rStatus.Load()))
	}))
	defer srv.Close()
	n := 0
	rapid.Check(t, func(t *rapid.T) {
		n++
		dir := filepath.Join(base, fmt.Sprint(n))
		defer os.RemoveAll(dir)
		os.MkdirAll(filepath.Join(dir, "local"), 0777)
		start := vgen.StartTime(t)
		var ends []time.Time
		k := rapid.IntRange(-1, 3).Draw(t, "firstWeek")
		for i, m := 0, rapid.IntRange(1, 2).Draw(t, "nweeks"); i < m; i++ {
			ends = append(ends, vgen.Midnight(start).AddDate(0, 0, -k))
			k += rapid.IntRange(1, 7).Draw(t, "gap")
		}
		var markers []string
		for _, f := range vgen.CountFiles(t, cfg, ends, vgen.FileOpts{StrictOS: true, AllowBad: true, MaxFiles: 4, OnlyKnown: true}, &markers) {
			os.WriteFile(filepath.Join(dir, "local", f.Base), f.Bytes, 0666)
		}
		var strays []string
		put := func(sub, name string) {
			p := filepath.Join(dir, sub, name)
			os.MkdirAll(filepath.Dir(p), 0777)
			switch rapid.IntRange(0, 3).Draw(t, "strayKind") {
			case 0:
				os.WriteFile(p, nil, 0666)
			case 1:
				os.WriteFile(p, []byte(`{"Week":"2024-01-01","X":0.5,"Config":"v1.2.3","Programs":[]}`), 0666)
			case 2:
				os.WriteFile(p, rapid.SliceOfN(rapid.Byte(), 1, 40).Draw(t, "strayBytes"), 0666)
			default:
				os.Mkdir(p, 0777)
			}
			strays = append(strays, sub+"/"+name)
		}
		for _, name := range c05rStray {
			if rapid.IntRange(0, 7).Draw(t, "local:"+name) == 0 {
				put("local", name)
			}
			if rapid.IntRange(0, 15).Draw(t, "upload:"+name) == 0 {
				put("upload", name)
			}
		}
		switch rapid.IntRange(0, 7).Draw(t, "uploadDir") {
		case 0:
			os.RemoveAll(filepath.Join(dir, "upload"))
			os.WriteFile(filepath.Join(dir, "upload"), []byte("a file"), 0666) // not a directory
		case 1:
			os.MkdirAll(filepath.Join(dir, "upload"), 0777)
		}
		mode := rapid.SampledFrom([]string{"on 2000-01-01", "on 2000-01-01", "on", "local", "off", "On", "", "on  2000-01-01", "on 2000-1-1"}).Draw(t, "mode")
		os.WriteFile(filepath.Join(dir, "mode"), []byte(mode), 0666)
		status := rapid.SampledFrom([]int{200, 200, 500, 400, 429, 302}).Draw(t, "status")
		c05rStatus.Store(int64(status))
		c05rRequests.Store(0)
		type result struct {
			err   error
			panic any
		}
		done := make(chan result, 1)
		go func() {
			var res result
			defer func() {
				res.panic = recover()
				done <- res
			}()
			res.err = Run(RunConfig{TelemetryDir: dir, UploadURL: srv.URL, Env: env, StartTime: start, LogWriter: io.Discard})
		}()
		desc := fmt.Sprintf("mode=%q status=%d strays=%v", mode, status, strays)
		finish := func(res result) {
			if res.panic != nil {
				t.Fatalf("%s: a panic escaped upload.Run: %v", desc, res.panic)
			}
			vstats.Case(desc, len(strays) > 0, fmt.Sprintf("err:%v", res.err != nil), fmt.Sprintf("requests:%d", min(int(c05rRequests.Load()), 3)))
		}
		select {
		case res := <-done:
			finish(res)
		case <-time.After(60 * time.Second):
			// A goroutine that sits blocked (on a lock, a channel, a request) after a minute hangs. One that is
			// still executing gets four more minutes: a slow, loaded machine is not a violation.
			st := c05rStackOfRun()
			if head, _, _ := strings.Cut(st, "\n"); strings.Contains(head, "[running") || strings.Contains(head, "[runnable") {
				select {
				case res := <-done:
					vstats.Label("runSlowButReturned")
					finish(res)
					return
				case <-time.After(240 * time.Second):
					st = c05rStackOfRun()
				}
			}
			t.Fatalf("%s: upload.Run did not return within 60 s; its goroutine:\n%s", desc, st)
		}
	})
}

// c05rStackOfRun returns the stack dump of the goroutine that is inside upload.Run ("" if there is none).
func c05rStackOfRun() string {
	buf := make([]byte, 4<<20)
	buf = buf[:runtime.Stack(buf, true)]
	for _, g := range strings.Split(string(buf), "\n\n") {
		if strings.Contains(g, "internal/upload.Run(") {
			return g
		}
	}
	return ""
}
