package upload

// C05 — uploader under file-system failures: every intercepted call of an
// uploader run over a generated directory fails in turn with every errno of
// the menu; Run must return, and counter files may be deleted only if a report
// for their week exists.

import (
	"fmt"
	"os"
	"path/filepath"
	"strings"
	"syscall"
	"testing"
	"time"

	"golang.org/x/telemetry/internal/telemetry"
	"golang.org/x/telemetry/internal/verif/vgen"
	"golang.org/x/telemetry/internal/verif/vhook"
	"golang.org/x/telemetry/internal/verif/vmodel"
	"golang.org/x/telemetry/internal/verif/vstats"
	"pgregory.net/rapid"
)

var c05uErrnos = []syscall.Errno{syscall.ENOENT, syscall.EACCES, syscall.EROFS, syscall.ENOSPC, syscall.EIO, syscall.EMFILE, syscall.ENOMEM}

func TestVerifC05Uploader(t *testing.T) {
	defer vstats.Flush()
	base := t.TempDir()
	rapid.Check(t, func(t *rapid.T) {
		cfg := vgen.UploadConfig(t)
		start := vgen.StartTime(t)
		var ends []time.Time
		k := rapid.IntRange(-2, 3).Draw(t, "firstWeek")
		for i, n := 0, rapid.IntRange(1, 3).Draw(t, "nweeks"); i < n; i++ {
			ends = append(ends, vgen.Midnight(start).AddDate(0, 0, -k))
			k += rapid.IntRange(1, 7).Draw(t, "gap")
		}
		var markers []string
		files := vgen.CountFiles(t, cfg, ends, vgen.FileOpts{StrictOS: true, AllowBad: true, MaxFiles: 5, OnlyKnown: true}, &markers)
		mode := rapid.SampledFrom([]string{"on 2000-01-01", "local", "on"}).Draw(t, "mode")
		status := rapid.SampledFrom([]int{200, 200, 500, 400}).Draw(t, "status")
		// a lock left behind in upload/ by an uploader that died days ago: a plain file, or something that cannot
		// be removed (a non-empty directory of that name)
		oldLock := rapid.SampledFrom([]string{"", "", "file", "dir"}).Draw(t, "oldLock")
		lockWeek := ends[rapid.IntRange(0, len(ends)-1).Draw(t, "lockWeek")].Format("2006-01-02")
		run := func(fault func(c *vhook.Call)) (calls []vhook.Call, dir string, pv any, stack string) {
			dir = vuFreshDir(base)
			vuWriteFiles(dir, files)
			vuSetMode(dir, mode)
			if oldLock != "" {
				lp := filepath.Join(dir, "upload", lockWeek+".json.lock")
				os.MkdirAll(filepath.Dir(lp), 0777)
				if oldLock == "dir" {
					os.MkdirAll(filepath.Join(lp, "keep"), 0777)
				} else {
					os.WriteFile(lp, nil, 0666)
				}
				old := time.Now().Add(-72 * time.Hour)
				os.Chtimes(lp, old, old)
			}
			ctl := vhook.New()
			ctl.KeepLog = true
			ctl.TickBudget = 5_000_000
			ctl.CallBudget = 50000
			ctl.Plan = fault
			ctl.PostFn = func(int, string, []byte) (int, error) { return status, nil }
			u := vuUploader(dir, cfg, "v1.2.3", "http://upload.test/upload", start)
			pv, stack = ctl.Direct(func() {
				// what upload.Run does around the uploader: recover panics
				defer func() {
					if r := recover(); r != nil {
						switch r.(type) {
						case vhook.BudgetExceeded, vhook.Deadlock:
							panic(r) // not a panic of the uploader: the harness ending an unbounded loop
						}
						vstats.Label("note:panic-recovered-by-Run")
					}
				}()
				u.Run()
			})
			return ctl.Log, dir, pv, stack
		}
		judge := func(what, dir string, pv any, stack string) {
			if pv != nil {
				t.Fatalf("%s: %v\n%s", what, pv, stack)
			}
			ents, _ := os.ReadDir(filepath.Join(dir, "local"))
			present := map[string]bool{}
			for _, e := range ents {
				present[e.Name()] = true
			}
			for _, f := range files {
				if present[f.Base] {
					continue
				}
				if !f.Readable() {
					t.Fatalf("%s: unreadable counter file %s was removed", what, f.Base)
				}
				wk := f.Week()
				_, e1 := os.Stat(filepath.Join(dir, "local", "local."+wk+".json"))
				_, e2 := os.Stat(filepath.Join(dir, "local", wk+".json"))
				_, e3 := os.Stat(filepath.Join(dir, "upload", wk+".json"))
				if e1 != nil && e2 != nil && e3 != nil {
					t.Fatalf("%s: counter file %s was removed although no report for week %s exists", what, f.Base, wk)
				}
			}
			os.RemoveAll(dir)
		}
		clean, dir, pv, stack := run(nil)
		judge("fault-free run", dir, pv, stack)
		desc := fmt.Sprintf("mode=%q status=%d files{%s} calls=%d", mode, status, vuDescribeFiles(files), len(clean))
		for i := range clean {
			kinds := len(c05uErrnos)
			if strings.Contains(clean[i].Op, "Write") {
				kinds++
			}
			for e := 0; e < kinds; e++ {
				hit := false
				calls, dir, pv, stack := run(func(c *vhook.Call) {
					if c.Idx == i {
						hit = true
						if e < len(c05uErrnos) {
							c.Inject = c05uErrnos[e]
						} else {
							c.Short = true
						}
					}
				})
				what := fmt.Sprintf("call #%d %s(%s) failing (kind %d)", i, clean[i].Op, filepath.Base(clean[i].Arg), e)
				judge(what, dir, pv, stack)
				vstats.Case(desc+" | "+what, hit && len(calls) != len(clean), "single:"+clean[i].Op)
			}
		}
		_ = vmodel.Build{}
		_ = telemetry.DateOnly
	})
}
