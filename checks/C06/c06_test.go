package counter

// C06 — Reading a counter file is total and faithful.
//
// Identifiers of the package under test this harness relies on:
//   Parse, File{Meta,Count}, CrashOnBugs
// plus the loop ticks inserted by vrewrite (mode loops) for the step bound.

import (
	"encoding/binary"
	"fmt"
	"reflect"
	"sort"
	"strings"
	"testing"

	"golang.org/x/telemetry/internal/verif/vformat"
	"golang.org/x/telemetry/internal/verif/vgen"
	"golang.org/x/telemetry/internal/verif/vhook"
	"golang.org/x/telemetry/internal/verif/vmem"
	"golang.org/x/telemetry/internal/verif/vstats"
	"pgregory.net/rapid"
)

// c06Parse runs Parse on a guarded copy of data with a step budget and returns
// the result, or a description of a totality violation.
func c06Parse(data []byte) (f *File, err error, viol string) {
	CrashOnBugs = false
	g, free := vmem.GuardedCopy(data)
	defer free()
	c := vhook.New()
	c.TickBudget = int64(3*(len(data)+512) + 1000)
	pv, stack := c.Direct(func() { f, err = Parse("x.v1.count", g) })
	vstats.NoteMax("max_ticks_per_parse", c.Ticks)
	if pv != nil {
		sig := "panic"
		if _, ok := pv.(vhook.BudgetExceeded); ok {
			sig = "step budget exceeded (does not terminate)"
		}
		return nil, nil, fmt.Sprintf("Parse: %s: %v\n%s", sig, pv, stack)
	}
	if f == nil && err == nil {
		return nil, nil, "Parse returned neither a result nor an error"
	}
	// The result must not alias memory we are about to release.
	if f != nil {
		f2 := &File{Meta: map[string]string{}, Count: map[string]uint64{}}
		for k, v := range f.Meta {
			f2.Meta[strings.Clone(k)] = strings.Clone(v)
		}
		for k, v := range f.Count {
			f2.Count[strings.Clone(k)] = v
		}
		f = f2
	}
	return f, err, ""
}

func c06Describe(data []byte) string {
	// compact rendering of the structurally relevant words, whether or not they are valid
	var sb strings.Builder
	fmt.Fprintf(&sb, "len=%d", len(data))
	u32 := func(off uint64) (uint32, bool) {
		if off+4 > uint64(len(data)) {
			return 0, false
		}
		return binary.LittleEndian.Uint32(data[off:]), true
	}
	if len(data) >= 32 {
		hdr := binary.LittleEndian.Uint32(data[28:])
		fmt.Fprintf(&sb, " hdrLen=%d", hdr)
		if lim, ok := u32(uint64(hdr)); ok {
			fmt.Fprintf(&sb, " limit=%#x", lim)
		}
		shown := 0
		for b := uint64(0); b < 512 && shown < 5; b++ {
			h, ok := u32(uint64(hdr) + 4 + 4*b)
			if !ok || h == 0 {
				continue
			}
			shown++
			fmt.Fprintf(&sb, " head[%d]=%#x", b, h)
			if w, ok := u32(uint64(h) + 8); ok {
				next, _ := u32(uint64(h) + 12)
				n := uint64(w & 0xffffff)
				name := ""
				if s := uint64(h) + 16; s < uint64(len(data)) {
					e := s + n
					if e > uint64(len(data)) {
						e = uint64(len(data))
					}
					if e > s+16 {
						e = s + 16
					}
					name = string(data[s:e])
				}
				fmt.Fprintf(&sb, "{nameLen=%d flags=%#x next=%#x name=%q}", n, w>>24, next, name)
			}
		}
	}
	fmt.Fprintf(&sb, " hash=%016x", vstats.Hash(string(data)))
	return sb.String()
}

// hostile 32-bit values for offsets / lengths.
func c06Hostile(t *rapid.T, size int, label string) uint32 {
	return rapid.OneOf(
		rapid.SampledFrom([]uint32{0, 1, 4, 28, 31, 32, 33, 36, 64, 2048, 2084, 2112, 16380, 16382, 16383, 16384, 16385,
			0xFFFFFFFF, 0xFFFFFFF0, 0x80000000, 0x7FFFFFFF, 0x00FFFFFF, 0x01000000, 0xFF000001}),
		rapid.Uint32Range(0, uint32(size)+64),
		rapid.Uint32Range(0xFFFFFFC0, 0xFFFFFFFF), // where adding a small field offset wraps around 32 bits
		rapid.Custom(func(t *rapid.T) uint32 {
			return uint32(size) - uint32(rapid.IntRange(0, 40).Draw(t, "fromEnd"))
		}),
		rapid.Custom(func(t *rapid.T) uint32 {
			return uint32(rapid.IntRange(0, size/32).Draw(t, "aligned")) * 32
		}),
	).Draw(t, label)
}

// c06Skeleton builds a buffer that passes the prefix/size test and has drawn
// values in the structurally interesting places.
func c06Skeleton(t *rapid.T) []byte {
	pages := rapid.IntRange(1, 3).Draw(t, "pages")
	size := pages * vformat.Page
	if rapid.IntRange(0, 5).Draw(t, "oddSize") == 0 {
		size += rapid.IntRange(1, 100).Draw(t, "extra")
	}
	data := make([]byte, size)
	copy(data, vformat.Prefix)
	hdr := rapid.OneOf(
		rapid.SampledFrom([]uint32{32, 64, 96, 160, 544}),
		rapid.Uint32Range(0, 40),
		rapid.Uint32Range(16384-2100, 16390),
		rapid.Custom(func(t *rapid.T) uint32 { return c06Hostile(t, size, "hdrHostile") }),
	).Draw(t, "hdrLen")
	binary.LittleEndian.PutUint32(data[28:], hdr)
	if rapid.Bool().Draw(t, "withMeta") && hdr > 40 && int(hdr) <= size {
		meta := rapid.SampledFrom([]string{"A: b\n\n", "TimeBegin: x\nTimeEnd: y\n\n", "noseparator\n", "k: v", ": \n", "\n\n"}).Draw(t, "meta")
		copy(data[32:hdr], meta)
	}
	put32 := func(off uint64, v uint32) {
		if off+4 <= uint64(len(data)) {
			binary.LittleEndian.PutUint32(data[off:], v)
		}
	}
	put32(uint64(hdr), c06Hostile(t, size, "limit"))
	// records at drawn places
	nrec := rapid.IntRange(0, 6).Draw(t, "nrec")
	var offs []uint32
	for i := 0; i < nrec; i++ {
		off := rapid.OneOf(
			rapid.Custom(func(t *rapid.T) uint32 {
				return uint32(rapid.IntRange(0, size/32).Draw(t, "aligned")) * 32
			}),
			rapid.Custom(func(t *rapid.T) uint32 { return c06Hostile(t, size, "recOff") }),
		).Draw(t, "off")
		offs = append(offs, off)
	}
	for i, off := range offs {
		name := rapid.SampledFrom([]string{"a", "b", "ab", "s\n\".f", "s\nmain.f\n\".g", "x.y\n\".z"}).Draw(t, "rname")
		nl := uint32(len(name))
		if rapid.IntRange(0, 3).Draw(t, "hostileLen") == 0 {
			nl = c06Hostile(t, size, "nameLen")
		}
		var next uint32
		switch rapid.IntRange(0, 4).Draw(t, "nextKind") {
		case 0:
			next = 0
		case 1:
			next = off // self loop
		case 2:
			next = offs[rapid.IntRange(0, len(offs)-1).Draw(t, "nextIdx")]
		case 3:
			next = offs[(i+1)%len(offs)]
		default:
			next = c06Hostile(t, size, "next")
		}
		o := uint64(off)
		if o+16 <= uint64(len(data)) {
			binary.LittleEndian.PutUint64(data[o:], rapid.Uint64().Draw(t, "val"))
			put32(o+8, nl|uint32(rapid.SampledFrom([]byte{0, 0xff, 1}).Draw(t, "flags"))<<24)
			put32(o+12, next)
			if o+16 < uint64(len(data)) {
				copy(data[o+16:], name)
			}
		}
	}
	// heads
	nheads := rapid.IntRange(0, 5).Draw(t, "nheads")
	for i := 0; i < nheads; i++ {
		b := rapid.Uint32Range(0, 511).Draw(t, "bucket")
		var v uint32
		if len(offs) > 0 && rapid.IntRange(0, 3).Draw(t, "headToRec") != 0 {
			v = offs[rapid.IntRange(0, len(offs)-1).Draw(t, "headIdx")]
		} else {
			v = c06Hostile(t, size, "head")
		}
		put32(uint64(hdr)+4+4*uint64(b), v)
	}
	return data
}

// c06WellFormed draws a well-formed file through the independent writer.
func c06WellFormed(t *rapid.T) (data []byte, meta [][2]string, recs []vformat.Rec) {
	meta = vgen.MetaKV(t, vformat.MaxMetaLen)
	maxN := rapid.SampledFrom([]int{3, 3, 10, 40, 300}).Draw(t, "maxRecs")
	// one file in forty-eight is larger than 16 MiB (a long-lived file with stack counters): after a few records the
	// rest, with its chains, lies beyond offset 1<<24 (offsets that need all four bytes of a link)
	hugeAt := -1
	if rapid.IntRange(0, 47).Draw(t, "hugeFile") == 0 {
		maxN = rapid.SampledFrom([]int{40, 300}).Draw(t, "hugeRecs")
		hugeAt = rapid.IntRange(0, 3).Draw(t, "hugeAt")
	}
	names := vgen.DistinctNames(t, 0, maxN, "name")
	for i, n := range names {
		r := vformat.Rec{Name: n, Value: vgen.Value().Draw(t, "value"), Flags: rapid.SampledFrom([]byte{0xff, 0xff, 0, 1}).Draw(t, "flags")}
		if rapid.IntRange(0, 4).Draw(t, "gap?") == 0 {
			r.Gap = uint32(rapid.IntRange(0, 700).Draw(t, "gap")) * 32
		}
		if i == hugeAt {
			r.Gap = 1<<24 - uint32(rapid.IntRange(0, 200).Draw(t, "hugeGapShort"))*32
			vstats.Label("fileBeyond16MiB")
		}
		recs = append(recs, r)
	}
	opts := &vformat.Options{ExtraPages: rapid.SampledFrom([]int{0, 0, 0, 1, 2}).Draw(t, "extraPages")}
	if rapid.Bool().Draw(t, "slack") {
		opts.LimitSlack = uint32(rapid.IntRange(0, 64).Draw(t, "limitSlack")) * 32
	}
	order := rapid.IntRange(0, 2).Draw(t, "chainOrder")
	if order != 0 {
		opts.ChainOrder = func(b uint32, idx []int) []int {
			out := append([]int(nil), idx...)
			if order == 2 { // rotate by a bucket-dependent amount: neither insertion nor reverse order
				k := int(b) % len(out)
				out = append(out[k:], out[:k]...)
			}
			return out
		}
	}
	var err error
	metaText := vformat.Meta(meta)
	if rapid.IntRange(0, 5).Draw(t, "blankMetaLines") == 0 && len(metaText) < vformat.MaxMetaLen-4 {
		// empty lines carry no key: they may stand anywhere between (or before) the "key: value" lines
		lines := strings.SplitAfter(metaText, "\n")
		at := rapid.IntRange(0, len(lines)-1).Draw(t, "blankAt")
		metaText = strings.Join(lines[:at], "") + "\n" + strings.Join(lines[at:], "")
		vstats.Label("blankLineInMetadata")
	}
	data, err = vformat.Encode(metaText, recs, opts)
	if err != nil {
		t.Fatalf("harness: encode: %v", err)
	}
	return data, meta, recs
}

// c06Mutate applies a few structured mutations to a valid file.
func c06Mutate(t *rapid.T, data []byte, f *vformat.File) {
	n := rapid.IntRange(1, 4).Draw(t, "nmut")
	for i := 0; i < n; i++ {
		var off uint64
		switch rapid.IntRange(0, 6).Draw(t, "where") {
		case 0:
			off = 28 // header length
		case 1:
			off = uint64(f.HdrLen) // limit
		case 2:
			off = uint64(f.HdrLen) + 4 + 4*uint64(rapid.IntRange(0, 511).Draw(t, "b"))
		case 3, 4:
			if len(f.Records) > 0 {
				r := f.Records[rapid.IntRange(0, len(f.Records)-1).Draw(t, "rec")]
				off = uint64(r.Off) + uint64(rapid.SampledFrom([]int{8, 12, 12}).Draw(t, "field"))
			} else {
				off = uint64(rapid.IntRange(0, len(data)-4).Draw(t, "any"))
			}
		case 5:
			off = uint64(rapid.IntRange(0, 40).Draw(t, "hdrByte"))
			data[off] = rapid.Byte().Draw(t, "byte")
			continue
		default:
			off = uint64(rapid.IntRange(0, len(data)-4).Draw(t, "any"))
		}
		var v uint32
		if len(f.Records) > 0 && rapid.Bool().Draw(t, "toRecord") {
			v = f.Records[rapid.IntRange(0, len(f.Records)-1).Draw(t, "target")].Off
			if rapid.IntRange(0, 3).Draw(t, "mid") == 0 {
				v += 16
			}
		} else {
			v = c06Hostile(t, len(data), "mutval")
		}
		if off+4 <= uint64(len(data)) {
			binary.LittleEndian.PutUint32(data[off:], v)
		}
	}
	if rapid.IntRange(0, 5).Draw(t, "truncate") == 0 {
		// handled by caller through the returned length? keep simple: zero the tail
		k := rapid.IntRange(0, len(data)).Draw(t, "zeroFrom")
		for j := k; j < len(data); j++ {
			data[j] = 0
		}
	}
}

func c06ExpandedCounts(recs map[string]uint64) (map[string]uint64, bool) {
	out := map[string]uint64{}
	for n, v := range recs {
		e := vformat.ExpandStack(n)
		if _, dup := out[e]; dup {
			return nil, false
		}
		out[e] = v
	}
	return out, true
}

func c06Diff(a, b map[string]uint64) string {
	var d []string
	for k, v := range a {
		if w, ok := b[k]; !ok {
			d = append(d, fmt.Sprintf("missing %q", k))
		} else if w != v {
			d = append(d, fmt.Sprintf("%q: %d vs %d", k, v, w))
		}
	}
	for k := range b {
		if _, ok := a[k]; !ok {
			d = append(d, fmt.Sprintf("extra %q", k))
		}
	}
	sort.Strings(d)
	if len(d) > 6 {
		d = d[:6]
	}
	return strings.Join(d, "; ")
}

// compare the two decoders on an input both accept
func c06Agree(t *rapid.T, data []byte, pf *File, vf *vformat.File) {
	want, ok := c06ExpandedCounts(vf.Count)
	if !ok {
		vstats.Label("excluded:two-names-expand-equal")
		return
	}
	if !reflect.DeepEqual(pf.Count, want) {
		t.Fatalf("Parse and the independent decoder disagree on counters: %s", c06Diff(want, pf.Count))
	}
	if len(pf.Meta) != len(vf.Meta) {
		t.Fatalf("metadata differs: Parse %q, independent %q", pf.Meta, vf.Meta)
	}
	for k, v := range vf.Meta {
		if pf.Meta[k] != v {
			t.Fatalf("metadata %q: Parse %q, independent %q", k, pf.Meta[k], v)
		}
	}
}

// TestVerifC06Total: arbitrary and structurally hostile byte strings.
func TestVerifC06Total(t *testing.T) {
	defer vstats.Flush()
	rapid.Check(t, c06TotalProp)
}

// FuzzVerifC06Total runs the same property under Go's coverage-guided fuzzer
// (thorough tier): the fuzzer's bytes are the source of rapid's draws.
func FuzzVerifC06Total(f *testing.F) {
	defer vstats.Flush()
	f.Fuzz(rapid.MakeFuzz(c06TotalProp))
}

// FuzzVerifC06Raw feeds raw bytes (seeded with valid files and hostile constants) to Parse.
func FuzzVerifC06Raw(f *testing.F) {
	defer vstats.Flush()
	for _, hdr := range []uint32{0, 31, 32, 64, 16378, 16384, 16385, 0xffffffff} {
		d := make([]byte, vformat.Page)
		copy(d, vformat.Prefix)
		binary.LittleEndian.PutUint32(d[28:], hdr)
		f.Add(d)
	}
	if d, err := vformat.Encode("A: b\n\n", []vformat.Rec{{Name: "a", Value: 1, Flags: 0xff}, {Name: "s\nmain.f\n\".g", Value: 2, Flags: 0xff}}, nil); err == nil {
		f.Add(d)
	}
	f.Fuzz(func(t *testing.T, data []byte) {
		pf, perr, viol := c06Parse(data)
		if viol != "" {
			t.Fatalf("%s\ninput: %s", viol, c06Describe(data))
		}
		vf, verr := vformat.Decode(data)
		if perr == nil && verr == nil {
			want, ok := c06ExpandedCounts(vf.Count)
			if ok && !reflect.DeepEqual(pf.Count, want) {
				t.Fatalf("Parse and the independent decoder disagree: %s", c06Diff(want, pf.Count))
			}
		}
		if verr == nil && perr != nil && len(vf.Validate()) == 0 {
			t.Fatalf("well-formed file rejected by Parse: %v", perr)
		}
	})
}

func c06TotalProp(t *rapid.T) {
	{
		var data []byte
		class := rapid.SampledFrom([]string{"skeleton", "skeleton", "skeleton", "mutated", "mutated", "bytes", "short"}).Draw(t, "class")
		switch class {
		case "bytes":
			data = rapid.SliceOfN(rapid.Byte(), 0, 200).Draw(t, "bytes")
			if rapid.Bool().Draw(t, "pad") {
				data = append(append([]byte(vformat.Prefix), data...), make([]byte, vformat.Page)...)
			}
		case "short":
			data = append([]byte(vformat.Prefix), make([]byte, rapid.IntRange(0, vformat.Page-20).Draw(t, "n"))...)
		case "skeleton":
			data = c06Skeleton(t)
		case "mutated":
			data, _, _ = c06WellFormed(t)
			vf, err := vformat.Decode(data)
			if err != nil {
				t.Fatalf("harness: own file rejected: %v", err)
			}
			c06Mutate(t, data, vf)
		}
		pf, perr, viol := c06Parse(data)
		vf, verr := vformat.Decode(data)
		passedHeader := len(data) >= vformat.Page && strings.HasPrefix(string(data[:min(len(data), 28)]), vformat.Prefix)
		label := "both-reject"
		switch {
		case perr == nil && verr == nil:
			label = "both-accept"
		case perr == nil:
			label = "only-Parse-accepts"
		case verr == nil:
			label = "only-independent-accepts"
		}
		vstats.Case(class+" "+c06Describe(data), passedHeader && viol == "", "class:"+class, "verdict:"+label)
		if viol != "" {
			t.Fatalf("%s\ninput: %s", viol, c06Describe(data))
		}
		if perr == nil && verr == nil {
			c06Agree(t, data, pf, vf)
		}
		if verr == nil && perr != nil && len(vf.Validate()) == 0 {
			t.Fatalf("well-formed file (independent validator finds nothing wrong) rejected by Parse: %v", perr)
		}
	}
}

// TestVerifC06Faithful: well-formed files of any shape from the independent writer.
func TestVerifC06Faithful(t *testing.T) {
	defer vstats.Flush()
	rapid.Check(t, func(t *rapid.T) {
		data, meta, recs := c06WellFormed(t)
		vf, verr := vformat.Decode(data)
		if verr != nil {
			t.Fatalf("harness: own file rejected by own decoder: %v", verr)
		}
		if p := vf.Validate(); len(p) > 0 {
			t.Fatalf("harness: own file not well-formed: %v", p)
		}
		if rapid.IntRange(0, 2).Draw(t, "damagedCopyFirst") == 0 {
			// Parse is a function of its input: what it was given before - here one or two damaged copies of the
			// same file, with the same names - must not matter to what it makes of the well-formed file
			for i, n := 0, rapid.IntRange(1, 2).Draw(t, "ndamaged"); i < n; i++ {
				damaged := append([]byte(nil), data...)
				c06Mutate(t, damaged, vf)
				if _, _, viol := c06Parse(damaged); viol != "" {
					t.Fatalf("%s\ninput: %s", viol, c06Describe(damaged))
				}
			}
			vstats.Label("parsedDamagedCopyFirst")
		}
		raw := map[string]uint64{}
		buckets := map[uint32]int{}
		stack, collide := false, false
		for _, r := range recs {
			raw[r.Name] = r.Value
			b := vformat.Bucket(r.Name)
			buckets[b]++
			if buckets[b] > 1 {
				collide = true
			}
			if strings.Contains(r.Name, "\n") {
				stack = true
			}
		}
		pf, perr, viol := c06Parse(data)
		nt := collide || stack || len(data) > vformat.Page
		vstats.Case(fmt.Sprintf("recs=%d metaLines=%d %s", len(recs), len(meta), c06Describe(data)), nt,
			fmt.Sprintf("pages:%d", len(data)/vformat.Page), fmt.Sprintf("collide:%v", collide), fmt.Sprintf("stack:%v", stack))
		if viol != "" {
			t.Fatalf("%s", viol)
		}
		if perr != nil {
			t.Fatalf("well-formed file rejected: %v", perr)
		}
		want, ok := c06ExpandedCounts(raw)
		if !ok {
			vstats.Label("excluded:two-names-expand-equal")
			return
		}
		if !reflect.DeepEqual(pf.Count, want) {
			t.Fatalf("counters differ from what was written: %s", c06Diff(want, pf.Count))
		}
		wantMeta := map[string]string{}
		for _, kv := range meta {
			wantMeta[kv[0]] = kv[1]
		}
		if !reflect.DeepEqual(pf.Meta, wantMeta) {
			t.Fatalf("metadata differs: got %q want %q", pf.Meta, wantMeta)
		}
	})
}

// TestVerifC06Regress replays, without the generator, the minimal inputs of
// the three defects this check found in Parse (all repaired by "fix:" commits;
// see /verif/known-findings.txt). They must stay repaired.
func TestVerifC06Regress(t *testing.T) {
	defer vstats.Flush()
	mk := func(hdr uint32, f func(d []byte)) []byte {
		d := make([]byte, vformat.Page)
		copy(d, vformat.Prefix)
		binary.LittleEndian.PutUint32(d[28:], hdr)
		if f != nil {
			f(d)
		}
		return d
	}
	cases := map[string][]byte{
		"hdrLen=0":  mk(0, nil),
		"hdrLen=31": mk(31, nil),
		// bucket-0 head straddles the end of the data
		"hdrLen=16378 (head of bucket 0 at 16382)": mk(16378, nil),
		// a stack-shaped record that links to itself
		"self-loop through a stack counter": mk(32, func(d []byte) {
			name := "x.y\n\".z"
			off := uint32(0x840)
			binary.LittleEndian.PutUint32(d[32:], off+32)
			binary.LittleEndian.PutUint32(d[32+4+4*vformat.Bucket(name):], off)
			binary.LittleEndian.PutUint64(d[off:], 7)
			binary.LittleEndian.PutUint32(d[off+8:], uint32(len(name))|0xff000000)
			binary.LittleEndian.PutUint32(d[off+12:], off)
			copy(d[off+16:], name)
		}),
	}
	for name, data := range cases {
		_, perr, viol := c06Parse(data)
		vstats.Case("regress "+name, true, "regress")
		if viol != "" {
			t.Errorf("%s: %s", name, viol)
		} else if perr == nil && !strings.HasPrefix(name, "hdrLen=16378") {
			// (an out-of-range table reads as empty, which is a legitimate result)
			t.Errorf("%s: accepted, want an error", name)
		}
	}
}
