package upload

// C07 — Each expired counter file is folded into exactly one weekly report
// (sequential histories; the concurrent part lives in c07c_test.go).

import (
	"bytes"
	"encoding/json"
	"fmt"
	"os"
	"path/filepath"
	"sort"
	"strings"
	"testing"
	"time"

	"golang.org/x/telemetry/internal/telemetry"
	"golang.org/x/telemetry/internal/verif/vgen"
	"golang.org/x/telemetry/internal/verif/vmodel"
	"golang.org/x/telemetry/internal/verif/vstats"
	"pgregory.net/rapid"
)

// c07Model tracks what the statement allows the directory to look like.
type c07Model struct {
	files    map[string]*vmodel.CountFile   // counter files that must still be present, by base name
	reported map[string]bool                // weeks that have some report (local-only, ready or uploaded)
	local    map[string][]*vmodel.CountFile // week -> files folded into local.<week>.json by a run of this history
	localRaw map[string][]byte              // bytes of local.<week>.json when first seen
}

func c07NewModel(files []*vmodel.CountFile) *c07Model {
	m := &c07Model{files: map[string]*vmodel.CountFile{}, reported: map[string]bool{}, local: map[string][]*vmodel.CountFile{}, localRaw: map[string][]byte{}}
	for _, f := range files {
		m.files[f.Base] = f
	}
	return m
}

// step applies one uploader run at start time s to the model.
func (m *c07Model) step(s time.Time) {
	weeks := map[string][]*vmodel.CountFile{}
	for _, f := range m.files {
		if f.Readable() && f.End.Before(s) {
			weeks[f.Week()] = append(weeks[f.Week()], f)
		}
	}
	for w, fs := range weeks {
		if m.reported[w] {
			for _, f := range fs { // already reported: the files are only removed
				delete(m.files, f.Base)
			}
			continue
		}
		nonEmpty := false
		for _, f := range fs {
			if len(f.Counts) > 0 {
				nonEmpty = true
			}
		}
		if !nonEmpty {
			continue // nothing to report; files stay
		}
		m.local[w] = fs
		m.reported[w] = true
		for _, f := range fs {
			delete(m.files, f.Base)
		}
	}
}

func c07Scenario(t *rapid.T) (cfg *telemetry.UploadConfig, files []*vmodel.CountFile, start time.Time) {
	cfg = vgen.UploadConfig(t)
	start = vgen.StartTime(t)
	nweeks := rapid.IntRange(1, 4).Draw(t, "nweeks")
	var ends []time.Time
	k := rapid.IntRange(-24, 2).Draw(t, "firstWeekOffsetDays")
	for i := 0; i < nweeks; i++ {
		end := vgen.Midnight(start).AddDate(0, 0, k)
		// now and then a week whose files record their span with a UTC offset (written by another
		// implementation or an older version): the week is still named by the recorded end date
		switch rapid.IntRange(0, 7).Draw(t, "endZone") {
		case 0:
			z := time.FixedZone("", 2*3600)
			end = time.Date(end.Year(), end.Month(), end.Day(), 0, 0, 0, 0, z)
		case 1:
			z := time.FixedZone("", -5*3600)
			end = time.Date(end.Year(), end.Month(), end.Day(), 0, 0, 0, 0, z)
		}
		ends = append(ends, end)
		k += rapid.IntRange(1, 8).Draw(t, "weekGapDays")
	}
	var markers []string
	files = vgen.CountFiles(t, cfg, ends, vgen.FileOpts{StrictOS: true, AllowBad: true, MaxFiles: 10, OnlyKnown: true}, &markers)
	return
}

// c07PreReports writes existing reports for some weeks and records them in the model.
func c07PreReports(t *rapid.T, dir string, files []*vmodel.CountFile, m *c07Model) []string {
	os.MkdirAll(filepath.Join(dir, "upload"), 0777)
	var pre []string
	for _, f := range files {
		if rapid.IntRange(0, 7).Draw(t, "preReport") != 0 || m.reported[f.Week()] || !f.Readable() {
			continue
		}
		w := f.Week()
		kind := rapid.SampledFrom([]string{"local", "ready", "uploaded"}).Draw(t, "preKind")
		content := []byte(fmt.Sprintf("{\"Week\":%q,\"X\":0.25,\"Config\":\"v0.0.1\"}", w))
		switch kind {
		case "local":
			os.WriteFile(filepath.Join(dir, "local", "local."+w+".json"), content, 0666)
			m.localRaw[w] = content
		case "ready":
			os.WriteFile(filepath.Join(dir, "local", w+".json"), content, 0666)
		case "uploaded":
			os.WriteFile(filepath.Join(dir, "upload", w+".json"), content, 0666)
		}
		m.reported[w] = true
		pre = append(pre, kind+":"+w)
	}
	sort.Strings(pre)
	return pre
}

func c07CheckDir(t *rapid.T, dir string, m *c07Model, all []*vmodel.CountFile, when string) {
	ents, err := os.ReadDir(filepath.Join(dir, "local"))
	if err != nil {
		t.Fatalf("%s: %v", when, err)
	}
	present := map[string]bool{}
	for _, e := range ents {
		present[e.Name()] = true
	}
	for _, f := range all {
		data, err := os.ReadFile(filepath.Join(dir, "local", f.Base))
		_, must := m.files[f.Base]
		switch {
		case must && err != nil:
			what := "has not ended / belongs to a week without a report"
			if !f.Readable() {
				what = "cannot be read as a counter file"
			}
			t.Fatalf("%s: counter file %s (%s, end %s) was removed although it %s", when, f.Base, f.Kind, f.End.Format(time.RFC3339), what)
		case must && !bytes.Equal(data, f.Bytes):
			t.Fatalf("%s: counter file %s was modified", when, f.Base)
		case !must && err == nil:
			// The statement only says files are removed *only once* a report exists; it does not
			// demand removal (the uploader keeps e.g. empty files of a week that has a local-only report).
			vstats.Label("note:expired-reported-file-still-present")
			if !bytes.Equal(data, f.Bytes) {
				t.Fatalf("%s: counter file %s was modified", when, f.Base)
			}
		}
	}
	for name := range present {
		if !strings.HasPrefix(name, "local.") || !strings.HasSuffix(name, ".json") {
			continue
		}
		w := strings.TrimSuffix(strings.TrimPrefix(name, "local."), ".json")
		data, _ := os.ReadFile(filepath.Join(dir, "local", name))
		if prev, ok := m.localRaw[w]; ok {
			if !bytes.Equal(prev, data) {
				t.Fatalf("%s: local.%s.json changed after it was first written (a second, different report for the week)", when, w)
			}
			continue
		}
		m.localRaw[w] = data
		fs, ok := m.local[w]
		if !ok {
			t.Fatalf("%s: unexpected local report local.%s.json (no week of expired, unreported, non-empty files ends on that date)", when, w)
		}
		var rep telemetry.Report
		if err := json.Unmarshal(data, &rep); err != nil {
			t.Fatalf("%s: local.%s.json is not JSON: %v", when, w, err)
		}
		if rep.Week != w {
			t.Fatalf("%s: local.%s.json has Week %q", when, w, rep.Week)
		}
		want, overflow := vmodel.Aggregate(fs)
		got, dup := vmodel.FromReport(&rep)
		if dup {
			t.Fatalf("%s: local.%s.json lists a program build twice", when, w)
		}
		if overflow {
			// sums beyond int64 are not held to a value; the presence of every name and all other values are
			ovf := vmodel.Overflowed(fs)
			want, got = vmodel.ZeroValues(want, ovf), vmodel.ZeroValues(got, ovf)
		}
		if d := vmodel.DiffProgs(want, got); d != "" {
			t.Fatalf("%s: local.%s.json differs from the sums over exactly the week's files: %s", when, w, d)
		}
	}
	for w := range m.local {
		if _, ok := m.localRaw[w]; !ok {
			t.Fatalf("%s: week %s (expired, non-empty, not reported before) has no local report", when, w)
		}
		if !present["local."+w+".json"] {
			t.Fatalf("%s: local.%s.json disappeared", when, w)
		}
	}
}

func TestVerifC07Sequential(t *testing.T) {
	defer vstats.Flush()
	srv := vuNewServer()
	defer srv.Close()
	base := t.TempDir()
	rapid.Check(t, func(t *rapid.T) {
		defer vuProcessZone(t)()
		cfg, files, start := c07Scenario(t)
		dir := vuFreshDir(base)
		defer os.RemoveAll(dir)
		vuWriteFiles(dir, files)
		m := c07NewModel(files)
		pre := c07PreReports(t, dir, files, m)
		nruns := rapid.IntRange(1, 4).Draw(t, "nruns")
		s := start
		var hist []string
		leftAlone, multi, keptCounting := false, false, false
		for i := 0; i < nruns; i++ {
			mode := rapid.SampledFrom([]string{"on 2000-01-01", "local", "on", "local 2001-02-03"}).Draw(t, "mode")
			vuSetMode(dir, mode)
			if i > 0 {
				s = s.Add(rapid.SampledFrom([]time.Duration{0, 0, time.Second, time.Hour, 24 * time.Hour, 3 * 24 * time.Hour, 9 * 24 * time.Hour}).Draw(t, "advance"))
			}
			u := vuUploader(dir, cfg, "v1.2.3", srv.URL(), s)
			if err := u.Run(); err != nil {
				t.Fatalf("run %d: %v", i, err)
			}
			srv.Take()
			before := len(m.local)
			m.step(s)
			hist = append(hist, fmt.Sprintf("run(%s,%s)->%d new weeks", strings.Fields(mode)[0], s.Format(time.RFC3339), len(m.local)-before))
			c07CheckDir(t, dir, m, files, fmt.Sprintf("after run %d (mode %s, start %s)", i, mode, s.Format(time.RFC3339)))
			// Between two runs the programs that own the still active files keep counting: values change in place
			// (through the shared mapping: same size, and the modification time need not change). A later run that
			// finds such a file expired reports what the file holds then.
			if i < nruns-1 {
				var names []string
				for name, f := range m.files {
					if f.Kind == "ok" && !f.End.Before(s) && len(f.Counts) > 0 {
						names = append(names, name)
					}
				}
				sort.Strings(names)
				for _, name := range names {
					if rapid.IntRange(0, 1).Draw(t, "keepsCounting") == 0 {
						continue
					}
					f := m.files[name]
					var keys []string
					for k := range f.Counts {
						keys = append(keys, k)
					}
					sort.Strings(keys)
					k := keys[rapid.IntRange(0, len(keys)-1).Draw(t, "whichCounter")]
					if f.Counts[k] > 1<<40 {
						continue
					}
					f.Counts[k] += uint64(rapid.IntRange(1, 40).Draw(t, "more"))
					nb := vgen.EncodeCountFile(f)
					if len(nb) != len(f.Bytes) {
						t.Fatalf("harness: re-encoding %s changed its size", name)
					}
					f.Bytes = nb
					p := filepath.Join(dir, "local", name)
					st, err := os.Stat(p)
					if err != nil {
						t.Fatalf("harness: %v", err)
					}
					if fh, err := os.OpenFile(p, os.O_WRONLY, 0); err == nil {
						fh.WriteAt(nb, 0)
						fh.Close()
					}
					os.Chtimes(p, st.ModTime(), st.ModTime())
					keptCounting = true
				}
			}
		}
		if len(m.files) > 0 {
			leftAlone = true
		}
		for _, fs := range m.local {
			if len(fs) >= 2 {
				multi = true
			}
		}
		vstats.Case(fmt.Sprintf("files{%s} pre=%v history=%v", vuDescribeFiles(files), pre, hist), multi && leftAlone,
			fmt.Sprintf("multi:%v", multi), fmt.Sprintf("leftAlone:%v", leftAlone), fmt.Sprintf("runs:%d", nruns), fmt.Sprintf("reportsBuilt:%d", min(len(m.local), 3)), fmt.Sprintf("activeFilesKeptCounting:%v", keptCounting))
	})
}
