package upload

// C08 — At most one report per week is delivered, under races, retries and crashes.
// C07 (concurrent part) — concurrent uploaders never produce a second or
// different local report for a week and never remove files of unreported weeks.
//
// Runs on a copy of internal/upload rewritten by vrewrite (fs, http, rand):
// every file-system call and the HTTP post are yield points of the scheduler,
// kill points of the crash injector, and the post is answered by a server model.

import (
	"crypto/sha256"
	"encoding/json"
	"fmt"
	"math"
	"os"
	"path/filepath"
	"sort"
	"strings"
	"testing"
	"time"

	"golang.org/x/telemetry/internal/telemetry"
	"golang.org/x/telemetry/internal/verif/vgen"
	"golang.org/x/telemetry/internal/verif/vhook"
	"golang.org/x/telemetry/internal/verif/vmodel"
	"golang.org/x/telemetry/internal/verif/vstats"
	"pgregory.net/rapid"
)

type c08Req struct {
	week    string
	hash    string
	outcome string // 200, 400, 500, neterr-before, neterr-after
	acked   bool
	thread  int
	run     int // uploader run number (concurrent ones first, then sequential re-runs)
	valid   bool
	status  int // HTTP status answered (0: no answer)
}

type c08World struct {
	t        *rapid.T
	dir      string
	outcomes []string
	strict   bool // the server refuses bodies that are not JSON reports with 400
	reqs     []c08Req
	runOf    map[int]int // thread id -> run number (set per controller)
	viol     string
	violSig  string              // signature of the violation, matched against known-findings.txt
	log      func() []vhook.Call // the controller's operation log so far
	codeBase int                 // where in c08ClientCodes / c08ServerCodes this world starts
	n4xx     int
	n5xx     int
	// for the clause "a request carries a report that was there to be read": the controller whose threads are
	// running now, the ready reports that existed when it was created, and per thread the length of its log when
	// the thread's previous request returned
	cur      *vhook.Controller
	initial  map[string]bool
	postMark map[int]int
}

// bind makes ctl the controller whose log decides whether a report existed (see post).
func (w *c08World) bind(ctl *vhook.Controller) {
	w.cur, w.postMark, w.initial = ctl, map[int]int{}, map[string]bool{}
	ents, _ := os.ReadDir(filepath.Join(w.dir, "local"))
	for _, e := range ents {
		w.initial[filepath.Join(w.dir, "local", e.Name())] = true
	}
}

// existedSince reports whether path existed at some moment between log position from and now, going by the
// successful creations, renames and removals in the current controller's log.
func (w *c08World) existedSince(path string, from int) bool {
	exists := w.initial[path]
	for i, c := range w.cur.Log {
		if i >= from && exists {
			return true
		}
		if c.Err != "" {
			continue
		}
		switch {
		case c.Op == "OpenFile" && c.Arg == path && c.Arg2 != "0x0", c.Op == "WriteFile" && c.Arg == path, c.Op == "Rename" && c.Arg2 == path:
			exists = true
		case c.Op == "Remove" && c.Arg == path, c.Op == "Rename" && c.Arg == path:
			exists = false
		}
	}
	return exists
}

// Status codes standing for "client error" and "server error".
var (
	c08ClientCodes = []int{400, 404, 408, 429, 413, 401, 403, 410, 422, 451, 499}
	c08ServerCodes = []int{503, 500, 502, 504, 507, 599}
)

// c08IncompleteRead reports whether some uploader read local/<week>.json between another
// uploader's exclusive creation of that file and the write of its content.
func (w *c08World) c08IncompleteRead(week string) bool {
	if w.log == nil {
		return false
	}
	path := filepath.Join(w.dir, "local", week+".json")
	creating := map[int]bool{} // threads that have created the file and not yet written it
	for _, c := range w.log() {
		if c.Arg != path {
			continue
		}
		switch {
		case c.Op == "OpenFile" && c.Arg2 != "0x0" && c.Err == "":
			creating[c.Thread] = true
		case c.Op == "File.Write" || c.Op == "File.Close":
			delete(creating, c.Thread)
		case c.Op == "ReadFile" && c.Err == "":
			for th := range creating {
				if th != c.Thread {
					return true
				}
			}
		}
	}
	return false
}

// c08RecreatedAfterDiscard reports whether local/<week>.json was created again after an
// uploader had removed it (which uploaders only do after a 4xx answer or when the week is
// already recorded as uploaded).
func (w *c08World) c08RecreatedAfterDiscard(week string) bool {
	if w.log == nil {
		return false
	}
	path := filepath.Join(w.dir, "local", week+".json")
	removed := false
	for _, c := range w.log() {
		if c.Arg != path {
			continue
		}
		if c.Op == "Remove" && c.Err == "" {
			removed = true
		}
		if removed && c.Op == "OpenFile" && c.Arg2 != "0x0" && c.Err == "" {
			return true
		}
	}
	return false
}

// c08UploadedBeforeLocalWritten reports whether local/<week>.json was removed by an uploader
// (after posting it) before local/local.<week>.json had been created: the uploadable report was
// published, delivered and discarded while the week's local report did not exist yet, so for a
// moment nothing in the directory said that the week has a report.
func (w *c08World) c08UploadedBeforeLocalWritten(week string) bool {
	if w.log == nil {
		return false
	}
	up := filepath.Join(w.dir, "local", week+".json")
	loc := filepath.Join(w.dir, "local", "local."+week+".json")
	for _, c := range w.log() {
		if c.Arg == loc && c.Op == "OpenFile" && c.Arg2 != "0x0" && c.Err == "" {
			return false // the local report was created first
		}
		if c.Arg == up && c.Op == "Remove" && c.Err == "" {
			return true
		}
	}
	return false
}

func (w *c08World) post(thread int, url string, body []byte) (int, error) {
	week := url[strings.LastIndexByte(url, '/')+1:]
	outcome := "200"
	if len(w.outcomes) > 0 {
		outcome, w.outcomes = w.outcomes[0], w.outcomes[1:]
	}
	var rep telemetry.Report
	valid := json.Unmarshal(body, &rep) == nil && rep.Week == week
	if w.strict && !valid && (outcome == "200" || outcome == "neterr-after") {
		outcome = "400"
	}
	// (3) what is sent was there to be read: the uploader turns to a report when it has finished the previous one,
	// so local/<week>.json existed at some moment since this uploader's previous request returned (or since it
	// started). A report that another uploader discarded before that (after a client error) cannot be sent.
	if w.cur != nil {
		if path := filepath.Join(w.dir, "local", week+".json"); !w.existedSince(path, w.postMark[thread]) && w.viol == "" {
			w.viol = fmt.Sprintf("uploader run %d sends a report for week %s, but local/%s.json has not existed since that uploader finished its previous request: the report had been removed (discarded after a client error, or delivered) before the uploader turned to it", w.runOf[thread], week, week)
		}
		defer func() { w.postMark[thread] = len(w.cur.Log) }()
	}
	// (2) a report that was acknowledged and recorded as uploaded is never sent again
	if _, err := os.Stat(filepath.Join(w.dir, "upload", week+".json")); err == nil {
		for _, r := range w.reqs {
			if r.week == week && r.acked && w.viol == "" {
				w.viol = fmt.Sprintf("week %s was acknowledged and is recorded in upload/, but uploader run %d sends it again", week, w.runOf[thread])
			}
		}
	}
	r := c08Req{week: week, hash: fmt.Sprintf("%x", sha256.Sum256(body))[:12], outcome: outcome, thread: thread, run: w.runOf[thread], valid: valid}
	r.acked = outcome == "200" || outcome == "neterr-after"
	// (1) never two different acknowledged bodies for one week
	if r.acked {
		for _, o := range w.reqs {
			if o.week == week && o.acked && o.hash != r.hash && w.viol == "" {
				w.viol = fmt.Sprintf("the server acknowledged two different report bodies for week %s (%s by run %d, %s by run %d)", week, o.hash, o.run, r.hash, r.run)
				switch {
				case (!o.valid || !r.valid) && w.c08IncompleteRead(week):
					// one of the bodies is not a complete report: it was read between the exclusive
					// creation of the report file and the write of its content
					w.violSig = "incomplete-report-read"
				case w.c08RecreatedAfterDiscard(week):
					for _, x := range w.reqs {
						if x.week == week && x.outcome == "400" {
							// the report was discarded after a 4xx and re-created with another X by an
							// uploader that had passed its existence checks earlier
							w.violSig = "recreated-after-4xx"
						}
					}
				}
			}
		}
	}
	switch outcome {
	case "200":
		r.status = 200
	case "400":
		// any client error: the codes are cycled through in the order of the requests
		w.n4xx++
		r.status = c08ClientCodes[(w.codeBase+w.n4xx)%len(c08ClientCodes)]
	case "500":
		w.n5xx++
		r.status = c08ServerCodes[(w.codeBase+w.n5xx)%len(c08ServerCodes)]
	}
	w.reqs = append(w.reqs, r)
	if r.status != 0 {
		return r.status, nil
	}
	return 0, fmt.Errorf("Post %q: connection reset by peer", url)
}

var c08Seq int

func TestVerifC08Deliver(t *testing.T) {
	defer vstats.Flush()
	base := t.TempDir()
	rapid.Check(t, func(t *rapid.T) {
		defer vuProcessZone(t)()
		c08Seq++
		dir := vuFreshDir(base)
		defer os.RemoveAll(dir)
		start := vgen.StartTime(t)
		if rapid.IntRange(0, 5).Draw(t, "futureStart") == 0 {
			// a start time years ahead of the machine's clock (the documented way to simulate a future upload):
			// every file the run creates then looks years old to it
			start = start.AddDate(8, 0, 0)
			vstats.Label("futureStart")
		}
		cfg := &telemetry.UploadConfig{GOOS: []string{"linux"}, GOARCH: []string{"amd64"}, GoVersion: []string{"go1.22.1"},
			SampleRate: rapid.SampledFrom([]float64{1, 0}).Draw(t, "sampleRate"),
			Programs:   []*telemetry.ProgramConfig{{Name: "cmd/go", Versions: []string{"go1.22.1"}, Counters: []telemetry.CounterConfig{{Name: "a/b", Rate: 1}}}}}
		// the mode file may carry no date (files written by early versions): nothing is then known about the
		// opt-in date and everything is uploadable, at the first attempt and at every retry
		modeContent := rapid.SampledFrom([]string{"on 2000-01-01", "on 2000-01-01", "on", "on\n"}).Draw(t, "modeFile")
		vuSetMode(dir, modeContent)
		vstats.Label(fmt.Sprintf("undatedMode:%v", !strings.Contains(modeContent, "2000")))
		os.MkdirAll(filepath.Join(dir, "upload"), 0777)
		// 1-3 uploadable weeks, 1-3 files each; plus files that must be left alone
		nweeks := rapid.IntRange(1, 3).Draw(t, "nweeks")
		var files []*vmodel.CountFile
		weeks := map[string][]*vmodel.CountFile{}
		k := rapid.IntRange(1, 5).Draw(t, "firstWeekAge")
		nf := 0
		mk := func(end time.Time, kind string) *vmodel.CountFile {
			nf++
			f := &vmodel.CountFile{Build: vmodel.Build{Program: "cmd/go", Version: "go1.22.1", GoVersion: "go1.22.1", GOOS: "linux", GOARCH: "amd64"},
				Begin: end.AddDate(0, 0, -rapid.IntRange(1, 7).Draw(t, "span")), End: end, Kind: kind, Counts: map[string]uint64{"a/b": uint64(nf), "x/unlisted": 1},
				Base: fmt.Sprintf("go@go1.22.1-go1.22.1-linux-amd64-%s_%d.v1.count", end.Format("2006-01-02"), nf)}
			f.Bytes = vgen.EncodeCountFile(f)
			return f
		}
		for i := 0; i < nweeks; i++ {
			end := vgen.Midnight(start).AddDate(0, 0, -k)
			k += rapid.IntRange(1, 7).Draw(t, "weekGap")
			for j, n := 0, rapid.IntRange(1, 3).Draw(t, "filesInWeek"); j < n; j++ {
				f := mk(end, "ok")
				files = append(files, f)
				weeks[f.Week()] = append(weeks[f.Week()], f)
			}
		}
		var keep []*vmodel.CountFile
		withActive := rapid.Bool().Draw(t, "withActive")
		if withActive {
			keep = append(keep, mk(vgen.Midnight(start).AddDate(0, 0, 2), "ok"))
		}
		if rapid.Bool().Draw(t, "withGarbage") {
			keep = append(keep, mk(vgen.Midnight(start).AddDate(0, 0, -3), "garbage"))
		}
		vuWriteFiles(dir, append(append([]*vmodel.CountFile(nil), files...), keep...))

		w := &c08World{t: t, dir: dir, runOf: map[int]int{}, strict: rapid.Bool().Draw(t, "strictServer"), codeBase: rapid.IntRange(0, 65).Draw(t, "statusCodes")}
		nout := rapid.IntRange(0, 10).Draw(t, "noutcomes")
		retryPattern := false
		for i := 0; i < nout; i++ {
			o := rapid.SampledFrom([]string{"200", "200", "200", "500", "400", "neterr-before", "neterr-after"}).Draw(t, "outcome")
			w.outcomes = append(w.outcomes, o)
		}
		lostAnswer := false
		for _, o := range w.outcomes {
			if o == "neterr-after" {
				lostAnswer = true
			}
		}
		if lostAnswer && vstats.IsListed("recreated-after-4xx") && rapid.IntRange(0, 5).Draw(t, "exclude4xxAfterLostAnswer") != 0 {
			for i, o := range w.outcomes {
				if o == "400" {
					w.outcomes[i] = "500"
				}
			}
			vstats.Label("excluded-by-construction:no-4xx-with-lost-answer")
		}
		nconc := rapid.IntRange(2, 4).Draw(t, "nconcurrent")
		killAt := map[int]int{}
		for i := 0; i < nconc; i++ {
			if rapid.IntRange(0, 3).Draw(t, "kill") == 0 {
				killAt[i] = rapid.IntRange(1, 200).Draw(t, "killStep")
			}
		}
		x := 0.25
		newCtl := func() *vhook.Controller {
			ctl := vhook.New()
			ctl.KeepLog = true
			ctl.PostFn = w.post
			w.bind(ctl)
			ctl.RandFn = func(b []byte) { // every uploader draws its own X; drive them apart on purpose
				x += 0.0625
				if x >= 0.5 {
					x = 0.03125
				}
				bits := math.Float64bits(0.5 + x)
				for i := range b {
					b[i] = 0
				}
				for i := 0; i < 8 && i < len(b); i++ {
					b[i] = byte(bits >> (8 * i))
				}
			}
			return ctl
		}
		// ----- phase 1: concurrent uploaders -----
		ctl := newCtl()
		w.log = func() []vhook.Call { return ctl.Log }
		for i := 0; i < nconc; i++ {
			w.runOf[i] = i
			u := vuUploader(dir, cfg, "v1.2.3", "http://upload.test/upload", start)
			ctl.Go(fmt.Sprintf("uploader%d", i), func() { u.Run() })
		}
		ctl.Install()
		knownHit := false
		logged := 0
		// Confirmed findings are excluded by construction in most cases so that the search goes on behind them.
		atomicCreate := vstats.IsListed("incomplete-report-read") && rapid.IntRange(0, 5).Draw(t, "excludeIncompleteRead") != 0
		if atomicCreate {
			vstats.Label("excluded-by-construction:create+write-atomic")
		}
		localReports := map[string]string{} // week -> hash of local.<week>.json when complete
		fileGone := map[string]bool{}
		procSteps := make([]int, nconc)
		killedInside := false
		bothAtLock := false
		lockTries := map[string]map[int]bool{}
		check := func(step int, th *vhook.Thread) {
			p := th.ID
			procSteps[p]++
			for ; logged < len(ctl.Log); logged++ {
				c := ctl.Log[logged]
				t.Logf("op: uploader %d %s %s %s err=%q", c.Thread, c.Op, strings.TrimPrefix(c.Arg, dir), c.Arg2, c.Err)
			}
			if th.Panic != nil {
				t.Fatalf("uploader %d panicked at %s: %v\n%s", p, th.Site, th.Panic, th.Stack)
			}
			if w.viol != "" {
				if w.violSig != "" && vstats.Known(w.violSig) {
					knownHit = true
					panic("stop: known finding")
				}
				t.Fatalf("step %d: %s", step, w.viol)
			}
			if strings.Contains(th.Site, "upload.go") && strings.Contains(th.Site, "os.OpenFile") && len(ctl.Log) > 0 {
				last := ctl.Log[len(ctl.Log)-1]
				if strings.HasSuffix(last.Arg, ".lock") {
					if lockTries[last.Arg] == nil {
						lockTries[last.Arg] = map[int]bool{}
					}
					lockTries[last.Arg][last.Thread] = true
					if len(lockTries[last.Arg]) > 1 {
						bothAtLock = true
					}
				}
			}
			// C07 (concurrent): a counter file disappears only when a report for its week exists,
			// active/unreadable files stay, a local report never changes once it is complete
			ents, _ := os.ReadDir(filepath.Join(dir, "local"))
			present := map[string]bool{}
			for _, e := range ents {
				present[e.Name()] = true
			}
			for _, f := range files {
				if !present[f.Base] && !fileGone[f.Base] {
					fileGone[f.Base] = true
					wk := f.Week()
					_, e1 := os.Stat(filepath.Join(dir, "local", "local."+wk+".json"))
					_, e2 := os.Stat(filepath.Join(dir, "local", wk+".json"))
					_, e3 := os.Stat(filepath.Join(dir, "upload", wk+".json"))
					if e1 != nil && e2 != nil && e3 != nil {
						t.Fatalf("step %d (uploader %d at %s): counter file %s was removed but no report for week %s exists", step, p, th.Site, f.Base, wk)
					}
				}
			}
			for _, f := range keep {
				if !present[f.Base] {
					t.Fatalf("step %d (uploader %d at %s): %s counter file %s was removed", step, p, th.Site, f.Kind, f.Base)
				}
			}
			for wk, fs := range weeks {
				data, err := os.ReadFile(filepath.Join(dir, "local", "local."+wk+".json"))
				if err != nil || len(data) == 0 {
					continue
				}
				var rep telemetry.Report
				if json.Unmarshal(data, &rep) != nil {
					continue // being written
				}
				h := fmt.Sprintf("%x", sha256.Sum256(data))
				if prev, ok := localReports[wk]; ok && prev != h {
					t.Fatalf("step %d: local.%s.json changed after it was complete (a second, different report)", step, wk)
				}
				if _, ok := localReports[wk]; !ok {
					localReports[wk] = h
					want, _ := vmodel.Aggregate(fs)
					got, _ := vmodel.FromReport(&rep)
					if d := vmodel.DiffProgs(want, got); d != "" {
						// known root causes: an uploader saw the week's uploadable report before it was complete
						// (or before the local report existed), and a 4xx made it discard that report again
						sig := ""
						if w.c08IncompleteRead(wk) {
							sig = "incomplete-report-read"
						} else if w.c08RecreatedAfterDiscard(wk) {
							for _, q := range w.reqs {
								if q.week == wk && q.outcome == "400" {
									sig = "recreated-after-4xx"
								}
							}
							if sig == "" && w.c08UploadedBeforeLocalWritten(wk) {
								sig = "uploaded-before-local-report"
							}
						}
						if sig != "" && vstats.Known(sig) {
							w.violSig = sig
							knownHit = true
							panic("stop: known finding")
						}
						t.Fatalf("step %d: local.%s.json differs from the sums over exactly the week's files: %s", step, wk, d)
					}
				}
			}
			if k, ok := killAt[p]; ok && procSteps[p] == k && !th.Done {
				ctl.Kill(th)
				killedInside = true
			}
		}
		var trace []int
		func() {
			defer func() {
				if knownHit {
					recover()
				}
			}()
			_, trace = c08Schedule(t, ctl, 50000, check, atomicCreate)
		}()
		vhook.Uninstall()
		if knownHit {
			vstats.Case("known-finding case", false, "known:"+w.violSig)
			return
		}
		if w.viol != "" {
			t.Fatalf("%s", w.viol)
		}
		crashed := false
		for _, th := range ctl.Threads {
			if th.Killed {
				crashed = true
			}
		}
		c08Attribution(t, ctl.Log, w, 0)

		// ----- phase 2: sequential re-runs -----
		nre := rapid.IntRange(0, 4).Draw(t, "nreruns")
		rerunAt := start
		for r := 0; r < nre; r++ {
			ctl2 := newCtl()
			w.runOf = map[int]int{0: nconc + r}
			// later runs happen minutes, days or weeks later (weeks only when no file is still active: it would expire
			// and add a week the model does not follow); a report left in place is still delivered
			rerunAt = rerunAt.Add(time.Minute)
			if !withActive {
				rerunAt = rerunAt.Add(rapid.SampledFrom([]time.Duration{0, 0, 0, 48 * time.Hour, 25 * 24 * time.Hour}).Draw(t, "rerunLater"))
			}
			u := vuUploader(dir, cfg, "v1.2.3", "http://upload.test/upload", rerunAt)
			before := len(w.reqs)
			th := ctl2.Go("rerun", func() { u.Run() })
			ctl2.Install()
			for i := 0; !th.Done; i++ {
				ctl2.Step(th)
				if i > 50000 {
					t.Fatalf("re-run does not terminate")
				}
			}
			vhook.Uninstall()
			if th.Panic != nil {
				t.Fatalf("re-run panicked: %v\n%s", th.Panic, th.Stack)
			}
			if w.viol != "" {
				if w.violSig != "" && vstats.Known(w.violSig) {
					vstats.Case("known-finding case", false, "known:"+w.violSig)
					return
				}
				t.Fatalf("re-run %d: %s", r, w.viol)
			}
			c08Attribution(t, ctl2.Log, w, before)
			// a report answered with a client error (whichever 4xx code) by this sequential run is discarded:
			// it is gone from local/ and is not marked as uploaded
			for _, q := range w.reqs[before:] {
				if q.outcome != "400" {
					continue
				}
				if _, err := os.Stat(filepath.Join(dir, "local", q.week+".json")); err == nil {
					t.Fatalf("re-run %d: week %s was answered with a client error (%d) but its report is still in local/: it will be sent again", r, q.week, q.status)
				}
				ackedBefore := false
				for _, o := range w.reqs {
					if o.week == q.week && o.acked {
						ackedBefore = true
					}
				}
				if _, err := os.Stat(filepath.Join(dir, "upload", q.week+".json")); err == nil && !ackedBefore {
					t.Fatalf("re-run %d: week %s was answered with a client error (%d) and never acknowledged, but is marked as uploaded", r, q.week, q.status)
				}
			}
			// a report left in place by a 5xx / lost answer is requested again by a later run
			// (unless a crashed uploader left its lock behind)
			for _, q := range w.reqs[:before] {
				if q.outcome == "500" || strings.HasPrefix(q.outcome, "neterr") {
					if _, err := os.Stat(filepath.Join(dir, "local", q.week+".json")); err == nil {
						if _, lerr := os.Stat(filepath.Join(dir, "upload", q.week+".json.lock")); lerr != nil {
							again := false
							for _, q2 := range w.reqs[before:] {
								if q2.week == q.week {
									again = true
								}
							}
							if !again {
								t.Fatalf("week %s got %s earlier and its report is still in place, but re-run %d did not request it", q.week, q.outcome, r)
							}
							retryPattern = true
						}
					}
				}
			}
		}
		// (4) bounded liveness without crashes: once every remaining outcome is 200 and a re-run happened
		if !crashed && nre > 0 && len(w.outcomes) == 0 {
			allOK := true
			lastRun := nconc + nre - 1
			for _, q := range w.reqs {
				if q.run == lastRun && q.outcome != "200" {
					allOK = false
				}
			}
			discarded := map[string]bool{}
			for _, q := range w.reqs {
				if q.outcome == "400" {
					discarded[q.week] = true
				}
			}
			if allOK {
				for wk := range weeks {
					acks := 0
					for _, q := range w.reqs {
						if q.week == wk && q.acked {
							acks++
						}
					}
					if discarded[wk] {
						if !w.strict {
							continue // the drawn 4xx discarded the report: nothing more is required
						}
						// with the strict server a 4xx can only have been drawn or caused by a body that was not a report
						invalidBody := false
						for _, q := range w.reqs {
							if q.week == wk && q.outcome == "400" && !q.valid {
								invalidBody = true
							}
						}
						if invalidBody && acks == 0 {
							if w.c08IncompleteRead(wk) && vstats.Known("incomplete-report-read") {
								vstats.Case("known-finding case", false, "known:incomplete-report-read")
								return
							}
							t.Fatalf("week %s was never delivered: an uploader sent a body that is not a complete report (%d bytes written by a concurrent uploader were read too early), the server refused it and the report was discarded", wk, 0)
						}
						continue
					}
					if acks == 0 {
						t.Fatalf("no crash, all later answers 200, %d re-runs: uploadable week %s was never acknowledged (requests: %+v)", nre, wk, w.reqs)
					}
					if acks > 1 && !lostAnswer {
						t.Fatalf("week %s was acknowledged %d times", wk, acks)
					}
					if _, err := os.Stat(filepath.Join(dir, "upload", wk+".json")); err != nil {
						t.Fatalf("week %s was acknowledged but is not recorded in upload/", wk)
					}
				}
			}
		}
		var rs []string
		for _, q := range w.reqs {
			rs = append(rs, fmt.Sprintf("run%d:%s:%s:%s", q.run, q.week[5:], q.hash[:4], q.outcome))
		}
		var kills []string
		for p, at := range killAt {
			if ctl.Threads[p].Killed {
				kills = append(kills, fmt.Sprintf("%d@%d", p, at))
			}
		}
		sort.Strings(kills)
		vstats.Case(fmt.Sprintf("weeks=%d files=%d uploaders=%d kills=%v reruns=%d strict=%v requests=%v schedule(len %d)=%v", nweeks, len(files), nconc, kills, nre, w.strict, rs, len(trace), tail8(trace, 40)),
			bothAtLock || killedInside || retryPattern, fmt.Sprintf("bothAtLock:%v", bothAtLock), fmt.Sprintf("killed:%v", killedInside), fmt.Sprintf("retry:%v", retryPattern),
			fmt.Sprintf("requests:%d", min(len(w.reqs), 5)))
		vstats.Note("scheduler_steps", int64(len(trace)))
	})
}

// c08Attribution checks clause (3) on one controller's operation log: what an
// uploader does to a week's report after its own request's outcome.
func c08Attribution(t *rapid.T, log []vhook.Call, w *c08World, fromReq int) {
	// walk the log; requests appear in order as http.Post calls
	ri := fromReq
	type st struct{ outcome string }
	after := map[int]map[string]string{} // thread -> week -> outcome of its own request
	for _, c := range log {
		if c.Op == "http.Post" {
			if ri < len(w.reqs) {
				q := w.reqs[ri]
				ri++
				if after[c.Thread] == nil {
					after[c.Thread] = map[string]string{}
				}
				after[c.Thread][q.week] = q.outcome
			}
			continue
		}
		for wk, outcome := range after[c.Thread] {
			local := filepath.Join(w.dir, "local", wk+".json")
			uploaded := filepath.Join(w.dir, "upload", wk+".json")
			touchesLocal := c.Arg == local && (c.Op == "Remove" || c.Op == "WriteFile")
			writesUploaded := c.Arg == uploaded && (c.Op == "WriteFile" || (c.Op == "OpenFile" && c.Arg2 != "0x0"))
			switch {
			case outcome == "500" || strings.HasPrefix(outcome, "neterr"):
				if touchesLocal || writesUploaded {
					t.Fatalf("uploader (thread %d) got %s for week %s but then did %s %s: the report must be left in place for a later run", c.Thread, outcome, wk, c.Op, c.Arg)
				}
			case outcome == "400":
				if writesUploaded {
					t.Fatalf("uploader (thread %d) got a client error for week %s but marked it uploaded", c.Thread, wk)
				}
			}
		}
	}
	// 4xx: the report is discarded
	for th, m := range after {
		for wk, outcome := range m {
			if outcome != "400" {
				continue
			}
			removed := false
			for _, c := range log {
				if c.Thread == th && c.Op == "Remove" && c.Arg == filepath.Join(w.dir, "local", wk+".json") {
					removed = true
				}
			}
			killed := false
			_ = killed
			if !removed {
				// the uploader may have been killed right after the answer; only a completed run must have removed it
				vstats.Label("note:4xx-without-removal(killed-or-removed-by-other)")
			}
		}
	}
}

// c08Schedule is the generated scheduler loop (same shapes as the counter checks).
func c08Schedule(t *rapid.T, ctl *vhook.Controller, maxSteps int, check func(step int, th *vhook.Thread), atomicCreate bool) (switches int, trace []int) {
	last := -1
	steps := 0
	for ctl.Live() > 0 {
		run := ctl.Runnable()
		if len(run) == 0 {
			t.Fatalf("deadlock: %d live uploaders, none runnable", ctl.Live())
		}
		th := run[rapid.IntRange(0, len(run)-1).Draw(t, "thread")]
		burst := rapid.SampledFrom([]int{1, 1, 2, 3, 5, 8, 20, 60}).Draw(t, "burst")
		for b := 0; b < burst && !th.Done && !th.Killed; b++ {
			if th.ID != last {
				switches++
				last = th.ID
			}
			ctl.Step(th)
			steps++
			trace = append(trace, th.ID)
			check(steps, th)
			if steps > maxSteps {
				t.Fatalf("step budget exceeded (%d steps)", steps)
			}
			if atomicCreate && !th.Done && !th.Killed && len(ctl.Log) > 0 {
				// exclusion of the known finding: the step after an exclusive creation of a report
				// file (the write of its content) follows at once
				if l := ctl.Log[len(ctl.Log)-1]; l.Thread == th.ID && l.Op == "OpenFile" && strings.HasSuffix(l.Arg, ".json") && l.Err == "" && l.Arg2 != "0x0" {
					b--
				}
			}
		}
	}
	return switches, trace
}

func tail8(s []int, n int) []int {
	if len(s) > n {
		return s[len(s)-n:]
	}
	return s
}

// c08KnownSetup builds the minimal directory of the known-finding replays:
// one uploadable week with two counter files.
func c08KnownSetup(t *testing.T, base string) (dir string, cfg *telemetry.UploadConfig, start time.Time, week string) {
	dir = vuFreshDir(base)
	start = time.Date(2024, 3, 10, 12, 0, 0, 0, time.UTC)
	cfg = &telemetry.UploadConfig{GOOS: []string{"linux"}, GOARCH: []string{"amd64"}, GoVersion: []string{"go1.22.1"}, SampleRate: 1,
		Programs: []*telemetry.ProgramConfig{{Name: "cmd/go", Versions: []string{"go1.22.1"}, Counters: []telemetry.CounterConfig{{Name: "a/b", Rate: 1}}}}}
	vuSetMode(dir, "on 2000-01-01")
	os.MkdirAll(filepath.Join(dir, "upload"), 0777)
	end := time.Date(2024, 3, 6, 0, 0, 0, 0, time.UTC)
	week = "2024-03-06"
	var files []*vmodel.CountFile
	for i := 1; i <= 2; i++ {
		f := &vmodel.CountFile{Build: vmodel.Build{Program: "cmd/go", Version: "go1.22.1", GoVersion: "go1.22.1", GOOS: "linux", GOARCH: "amd64"},
			Begin: end.AddDate(0, 0, -7), End: end, Kind: "ok", Counts: map[string]uint64{"a/b": uint64(i)},
			Base: fmt.Sprintf("go@go1.22.1-go1.22.1-linux-amd64-2024-02-28_%d.v1.count", i)}
		f.Bytes = vgen.EncodeCountFile(f)
		files = append(files, f)
	}
	vuWriteFiles(dir, files)
	return
}

func c08LastOp(ctl *vhook.Controller, thread int) (op, arg string) {
	for i := len(ctl.Log) - 1; i >= 0; i-- {
		if ctl.Log[i].Thread == thread {
			return ctl.Log[i].Op, ctl.Log[i].Arg
		}
	}
	return "", ""
}

// TestVerifC08Known replays the two known findings with fixed schedules. If a
// defect has been repaired its replay reports nothing.
func TestVerifC08Known(t *testing.T) {
	defer vstats.Flush()
	base := t.TempDir()
	newX := func() func(b []byte) {
		x := 0.25
		return func(b []byte) {
			x += 0.0625
			bits := math.Float64bits(0.5 + x)
			for i := range b {
				b[i] = 0
			}
			for i := 0; i < 8 && i < len(b); i++ {
				b[i] = byte(bits >> (8 * i))
			}
		}
	}
	// --- incomplete-report-read: A creates local/W.json exclusively and is descheduled before
	// writing its content; B runs to completion (reads the empty file, posts it, answer lost);
	// A resumes and delivers the real report.
	func() {
		dir, cfg, start, week := c08KnownSetup(t, base)
		defer os.RemoveAll(dir)
		w := &c08World{dir: dir, runOf: map[int]int{0: 0, 1: 1}, outcomes: []string{"neterr-after", "200"}}
		ctl := vhook.New()
		ctl.KeepLog = true
		ctl.PostFn = w.post
		ctl.RandFn = newX()
		w.log = func() []vhook.Call { return ctl.Log }
		ua := vuUploader(dir, cfg, "v1.2.3", "http://upload.test/upload", start)
		ub := vuUploader(dir, cfg, "v1.2.3", "http://upload.test/upload", start)
		a := ctl.Go("A", func() { ua.Run() })
		b := ctl.Go("B", func() { ub.Run() })
		ctl.Install()
		defer vhook.Uninstall()
		for i := 0; i < 10000 && !a.Done; i++ {
			ctl.Step(a)
			if op, arg := c08LastOp(ctl, 0); op == "OpenFile" && arg == filepath.Join(dir, "local", week+".json") {
				break
			}
		}
		ctl.RunAlone(b, 100000)
		ctl.RunAlone(a, 100000)
		vhook.Uninstall()
		vstats.Case("fixed schedule: A OpenFile(O_EXCL) local/W.json; B runs to completion; A resumes", true, "known-replay")
		if w.viol != "" {
			if w.violSig == "incomplete-report-read" && vstats.Known(w.violSig) {
				return
			}
			t.Fatalf("%s", w.viol)
		}
	}()
	// --- recreated-after-4xx: C passes createReport's existence checks and is descheduled; A creates the
	// reports and posts (answer lost after the server processed it); B posts the same file, gets 4xx
	// and removes it; C re-creates local/W.json with its own X and gets it acknowledged.
	func() {
		dir, cfg, start, week := c08KnownSetup(t, base)
		defer os.RemoveAll(dir)
		w := &c08World{dir: dir, runOf: map[int]int{0: 0, 1: 1, 2: 2}, outcomes: []string{"neterr-after", "400", "200"}}
		ctl := vhook.New()
		ctl.KeepLog = true
		ctl.PostFn = w.post
		ctl.RandFn = newX()
		w.log = func() []vhook.Call { return ctl.Log }
		us := []*uploader{}
		for i := 0; i < 3; i++ {
			us = append(us, vuUploader(dir, cfg, "v1.2.3", "http://upload.test/upload", start))
		}
		a := ctl.Go("A", func() { us[0].Run() })
		b := ctl.Go("B", func() { us[1].Run() })
		c := ctl.Go("C", func() { us[2].Run() })
		ctl.Install()
		defer vhook.Uninstall()
		// C until it has stat'ed local/W.json (the second existence check) and found nothing
		for i := 0; i < 10000 && !c.Done; i++ {
			ctl.Step(c)
			if op, arg := c08LastOp(ctl, 2); op == "Stat" && arg == filepath.Join(dir, "local", week+".json") {
				break
			}
		}
		// B lists the directory only after A has created the report: run A until it has posted, then B fully, then A's rest
		for i := 0; i < 10000 && !a.Done; i++ {
			ctl.Step(a)
			if op, _ := c08LastOp(ctl, 0); op == "http.Post" {
				break
			}
		}
		ctl.RunAlone(a, 100000)
		ctl.RunAlone(b, 100000)
		ctl.RunAlone(c, 100000)
		vhook.Uninstall()
		vstats.Case("fixed schedule: C passes existence checks; A posts (answer lost); B gets 4xx and discards; C re-creates and posts", true, "known-replay")
		if w.viol != "" {
			if w.violSig == "recreated-after-4xx" && vstats.Known(w.violSig) {
				return
			}
			t.Fatalf("%s", w.viol)
		}
	}()
	// --- uploaded-before-local-report: A has listed the directory and read the first count file; C creates and
	// writes local/W.json and is descheduled before creating local/local.W.json; B runs to completion (finds
	// W.json, deletes the count files, posts W.json, records it, removes it); A resumes: the second count file is
	// gone, neither report file exists, so it writes a local report from the first file only; C's local report
	// then fails with "exists".
	func() {
		dir, cfg, start, week := c08KnownSetup(t, base)
		defer os.RemoveAll(dir)
		w := &c08World{dir: dir, runOf: map[int]int{0: 0, 1: 1, 2: 2}, outcomes: []string{"200", "200", "200"}}
		ctl := vhook.New()
		ctl.KeepLog = true
		ctl.PostFn = w.post
		ctl.RandFn = newX()
		w.log = func() []vhook.Call { return ctl.Log }
		us := []*uploader{}
		for i := 0; i < 3; i++ {
			us = append(us, vuUploader(dir, cfg, "v1.2.3", "http://upload.test/upload", start))
		}
		a := ctl.Go("A", func() { us[0].Run() })
		b := ctl.Go("B", func() { us[1].Run() })
		c := ctl.Go("C", func() { us[2].Run() })
		ctl.Install()
		defer vhook.Uninstall()
		for i := 0; i < 10000 && !a.Done; i++ {
			ctl.Step(a)
			if op, arg := c08LastOp(ctl, 0); op == "ReadFile" && strings.HasSuffix(arg, "_1.v1.count") {
				break
			}
		}
		for i := 0; i < 10000 && !c.Done; i++ {
			ctl.Step(c)
			if op, arg := c08LastOp(ctl, 2); op == "File.Close" && arg == filepath.Join(dir, "local", week+".json") {
				break
			}
		}
		// B until it has deleted the count files (it found C's uploadable report)
		for i := 0; i < 10000 && !b.Done; i++ {
			ctl.Step(b)
			if op, arg := c08LastOp(ctl, 1); op == "Remove" && strings.HasSuffix(arg, "_2.v1.count") {
				break
			}
		}
		// A finishes listing: the second count file is gone, the upload directory is still empty
		for i := 0; i < 10000 && !a.Done; i++ {
			ctl.Step(a)
			if op, arg := c08LastOp(ctl, 0); op == "ReadDir" && arg == filepath.Join(dir, "upload") {
				break
			}
		}
		ctl.RunAlone(b, 100000)
		ctl.RunAlone(a, 100000)
		ctl.RunAlone(c, 100000)
		vhook.Uninstall()
		vstats.Case("fixed schedule: C writes local/W.json; A reads the first count file; B deletes the count files; A finishes listing; B uploads and removes W.json; A writes a partial local report", true, "known-replay")
		if w.viol != "" {
			t.Fatalf("%s", w.viol)
		}
		data, err := os.ReadFile(filepath.Join(dir, "local", "local."+week+".json"))
		if err != nil {
			return // not reproduced
		}
		var rep telemetry.Report
		if json.Unmarshal(data, &rep) != nil {
			t.Fatalf("local report is not JSON: %q", data)
		}
		total := int64(0)
		for _, p := range rep.Programs {
			total += p.Counters["a/b"]
		}
		if total == 3 {
			return // complete: repaired
		}
		if w.c08RecreatedAfterDiscard(week) && w.c08UploadedBeforeLocalWritten(week) && vstats.Known("uploaded-before-local-report") {
			return
		}
		t.Fatalf("local report for %s holds a/b = %d, the week's two files hold 3", week, total)
	}()
}

// ---------- kill-point enumeration ----------

type c08Scn struct {
	cfg      *telemetry.UploadConfig
	start    time.Time
	files    []*vmodel.CountFile
	outcomes []string
	strict   bool
	nconc    int
}

func c08GenScn(t *rapid.T) *c08Scn {
	s := &c08Scn{start: vgen.StartTime(t), strict: rapid.Bool().Draw(t, "strictServer"), nconc: rapid.IntRange(2, 3).Draw(t, "nconcurrent")}
	s.cfg = &telemetry.UploadConfig{GOOS: []string{"linux"}, GOARCH: []string{"amd64"}, GoVersion: []string{"go1.22.1"}, SampleRate: 1,
		Programs: []*telemetry.ProgramConfig{{Name: "cmd/go", Versions: []string{"go1.22.1"}, Counters: []telemetry.CounterConfig{{Name: "a/b", Rate: 1}}}}}
	k := rapid.IntRange(1, 5).Draw(t, "firstWeekAge")
	nf := 0
	for i, n := 0, rapid.IntRange(1, 2).Draw(t, "nweeks"); i < n; i++ {
		end := vgen.Midnight(s.start).AddDate(0, 0, -k)
		k += rapid.IntRange(1, 7).Draw(t, "weekGap")
		for j, m := 0, rapid.IntRange(1, 2).Draw(t, "filesInWeek"); j < m; j++ {
			nf++
			f := &vmodel.CountFile{Build: vmodel.Build{Program: "cmd/go", Version: "go1.22.1", GoVersion: "go1.22.1", GOOS: "linux", GOARCH: "amd64"},
				Begin: end.AddDate(0, 0, -3), End: end, Kind: "ok", Counts: map[string]uint64{"a/b": uint64(nf)},
				Base: fmt.Sprintf("go@go1.22.1-go1.22.1-linux-amd64-%s_%d.v1.count", end.Format("2006-01-02"), nf)}
			f.Bytes = vgen.EncodeCountFile(f)
			s.files = append(s.files, f)
		}
	}
	for i, n := 0, rapid.IntRange(0, 6).Draw(t, "noutcomes"); i < n; i++ {
		s.outcomes = append(s.outcomes, rapid.SampledFrom([]string{"200", "200", "500", "400", "neterr-before", "neterr-after"}).Draw(t, "outcome"))
	}
	return s
}

// c08RunScn executes the concurrent phase of a scenario. With replay == nil the
// schedule is drawn (and returned); otherwise the recorded thread sequence is
// followed, skipping threads that cannot run. killAt: thread -> own step number
// after which it is stopped for good. It then performs one crash-free re-run
// answered with 200 and returns a known-finding signature if the history
// violated an invariant with a listed root cause.
func c08RunScn(t *rapid.T, base string, s *c08Scn, replay []int, killAt map[int]int) (trace []int, steps []int, known string) {
	dir := vuFreshDir(base)
	defer os.RemoveAll(dir)
	vuSetMode(dir, "on 2000-01-01")
	os.MkdirAll(filepath.Join(dir, "upload"), 0777)
	vuWriteFiles(dir, s.files)
	w := &c08World{t: t, dir: dir, runOf: map[int]int{}, strict: s.strict, outcomes: append([]string(nil), s.outcomes...), codeBase: len(s.outcomes) + len(s.files)}
	x := 0.25
	newCtl := func() *vhook.Controller {
		ctl := vhook.New()
		ctl.KeepLog = true
		ctl.PostFn = w.post
		w.bind(ctl)
		ctl.RandFn = func(b []byte) {
			x += 0.0625
			if x >= 0.5 {
				x = 0.03125
			}
			bits := math.Float64bits(0.5 + x)
			for i := range b {
				b[i] = 0
			}
			for i := 0; i < 8 && i < len(b); i++ {
				b[i] = byte(bits >> (8 * i))
			}
		}
		return ctl
	}
	ctl := newCtl()
	w.log = func() []vhook.Call { return ctl.Log }
	for i := 0; i < s.nconc; i++ {
		w.runOf[i] = i
		u := vuUploader(dir, s.cfg, "v1.2.3", "http://upload.test/upload", s.start)
		ctl.Go(fmt.Sprintf("uploader%d", i), func() { u.Run() })
	}
	ctl.Install()
	defer vhook.Uninstall()
	steps = make([]int, s.nconc)
	fail := func(format string, args ...any) bool {
		if w.violSig != "" && vstats.Known(w.violSig) {
			known = w.violSig
			return true
		}
		t.Fatalf(format, args...)
		return true
	}
	stepOne := func(th *vhook.Thread) bool {
		ctl.Step(th)
		steps[th.ID]++
		trace = append(trace, th.ID)
		if th.Panic != nil {
			t.Fatalf("uploader %d panicked at %s: %v\n%s", th.ID, th.Site, th.Panic, th.Stack)
		}
		if w.viol != "" {
			return fail("kill plan %v, step %d: %s", killAt, len(trace), w.viol)
		}
		if k, ok := killAt[th.ID]; ok && steps[th.ID] == k && !th.Done {
			ctl.Kill(th)
		}
		return false
	}
	if replay == nil {
		for ctl.Live() > 0 && known == "" {
			run := ctl.Runnable()
			if len(run) == 0 {
				t.Fatalf("deadlock")
			}
			th := run[rapid.IntRange(0, len(run)-1).Draw(t, "thread")]
			for b, burst := 0, rapid.SampledFrom([]int{1, 2, 3, 5, 8, 20}).Draw(t, "burst"); b < burst && !th.Done && !th.Killed; b++ {
				if stepOne(th) {
					break
				}
			}
			if len(trace) > 50000 {
				t.Fatalf("step budget exceeded")
			}
		}
	} else {
		i := 0
		for ctl.Live() > 0 && known == "" {
			var th *vhook.Thread
			for ; i < len(replay); i++ {
				c := ctl.Threads[replay[i]]
				if !c.Done && !c.Killed {
					th = c
					i++
					break
				}
			}
			if th == nil { // recorded schedule exhausted: run the rest round-robin
				th = ctl.Runnable()[0]
			}
			stepOne(th)
			if len(trace) > 50000 {
				t.Fatalf("step budget exceeded")
			}
		}
	}
	vhook.Uninstall()
	if known != "" {
		return
	}
	c08Attribution(t, ctl.Log, w, 0)
	// one later crash-free run, every answer 200: still no second acknowledged body, no resend of a recorded week
	w.outcomes = nil
	before := len(w.reqs)
	ctl2 := newCtl()
	w.runOf = map[int]int{0: s.nconc}
	u := vuUploader(dir, s.cfg, "v1.2.3", "http://upload.test/upload", s.start.Add(time.Minute))
	th := ctl2.Go("rerun", func() { u.Run() })
	ctl2.Install()
	for i := 0; !th.Done; i++ {
		ctl2.Step(th)
		if i > 50000 {
			t.Fatalf("re-run does not terminate")
		}
	}
	vhook.Uninstall()
	if th.Panic != nil {
		t.Fatalf("re-run panicked: %v\n%s", th.Panic, th.Stack)
	}
	if w.viol != "" {
		fail("kill plan %v, re-run: %s", killAt, w.viol)
		return
	}
	c08Attribution(t, ctl2.Log, w, before)
	return
}

// TestVerifC08KillEnum: for each generated scenario and schedule, EVERY single
// kill point of EVERY uploader is tried in turn (the recorded schedule is
// replayed with that uploader stopped after its k-th step).
func TestVerifC08KillEnum(t *testing.T) {
	defer vstats.Flush()
	base := t.TempDir()
	rapid.Check(t, func(t *rapid.T) {
		s := c08GenScn(t)
		trace, steps, known := c08RunScn(t, base, s, nil, nil)
		desc := fmt.Sprintf("weeks/files=%d uploaders=%d outcomes=%v strict=%v steps=%v", len(s.files), s.nconc, s.outcomes, s.strict, steps)
		if known != "" {
			vstats.Case("known-finding case", false, "known:"+known)
			return
		}
		runs, knownRuns := 0, 0
		for u := 0; u < s.nconc; u++ {
			for k := 1; k <= steps[u]; k++ {
				_, _, kn := c08RunScn(t, base, s, trace, map[int]int{u: k})
				runs++
				if kn != "" {
					knownRuns++
				}
				vstats.Case(fmt.Sprintf("%s | uploader %d killed after its step %d", desc, u, k), true, "kill-point")
			}
		}
		vstats.Note("kill_points_enumerated", int64(runs))
		vstats.Note("kill_points_ending_in_known_finding", int64(knownRuns))
	})
}
