package counter

// C09 — counter side: span computation, file naming, rotation at the recorded
// end, the self-rearming rotation timer (time.Until/AfterFunc go through the
// vhook time shim in the rewritten copy of file.go).

import (
	"bytes"
	"fmt"
	"os"
	"path/filepath"
	"strconv"
	"strings"
	"testing"
	"time"

	"golang.org/x/telemetry/internal/telemetry"
	"golang.org/x/telemetry/internal/verif/vformat"
	"golang.org/x/telemetry/internal/verif/vhook"
	"golang.org/x/telemetry/internal/verif/vmodel"
	"golang.org/x/telemetry/internal/verif/vstats"
	"pgregory.net/rapid"
)

// c09Now draws a time between 1990 and 2090 with month/year/leap boundaries forced.
func c09Now(t *rapid.T) (tm time.Time, boundary bool) {
	var days int
	switch rapid.IntRange(0, 3).Draw(t, "dayKind") {
	case 0: // last/first days of a month or year, leap days
		y := rapid.IntRange(1990, 2090).Draw(t, "y")
		m := rapid.SampledFrom([]int{1, 2, 2, 3, 12, 12, 6, 7}).Draw(t, "m")
		first := vmodel.DaysFromCivil(y, m, 1)
		next := vmodel.DaysFromCivil(y, m+1, 1)
		if m == 12 {
			next = vmodel.DaysFromCivil(y+1, 1, 1)
		}
		days = rapid.SampledFrom([]int{first, first + 1, next - 1, next - 2, next - 7, next - 3}).Draw(t, "edge")
		boundary = true
	default:
		days = rapid.IntRange(vmodel.DaysFromCivil(1990, 1, 1), vmodel.DaysFromCivil(2090, 12, 31)).Draw(t, "days")
	}
	sec := rapid.OneOf(rapid.SampledFrom([]int{0, 1, 86399, 43200}), rapid.IntRange(0, 86399)).Draw(t, "sec")
	ns := rapid.SampledFrom([]int{0, 0, 1, 999999999}).Draw(t, "ns")
	y, m, d := vmodel.CivilFromDays(days)
	return time.Date(y, time.Month(m), d, 0, 0, sec, ns, time.UTC), boundary
}

func c09Days(tm time.Time) int {
	return vmodel.DaysFromCivil(tm.Year(), int(tm.Month()), tm.Day())
}

func c09Midnight(days int) time.Time {
	y, m, d := vmodel.CivilFromDays(days)
	return time.Date(y, time.Month(m), d, 0, 0, 0, 0, time.UTC)
}

func c09ReadMeta(t *rapid.T, path string) (begin, end time.Time, f *vformat.File) {
	data, err := os.ReadFile(path)
	if err != nil {
		t.Fatalf("reading %s: %v", path, err)
	}
	f, err = vformat.Decode(data)
	if err != nil {
		t.Fatalf("decoding %s: %v", path, err)
	}
	begin, err = time.Parse(time.RFC3339, f.Meta["TimeBegin"])
	if err != nil {
		t.Fatalf("TimeBegin %q: %v", f.Meta["TimeBegin"], err)
	}
	end, err = time.Parse(time.RFC3339, f.Meta["TimeEnd"])
	if err != nil {
		t.Fatalf("TimeEnd %q: %v", f.Meta["TimeEnd"], err)
	}
	return begin, end, f
}

func TestVerifC09Span(t *testing.T) {
	defer vstats.Flush()
	base := t.TempDir()
	n := 0
	rapid.Check(t, func(t *rapid.T) {
		CrashOnBugs = false
		n++
		dir := filepath.Join(base, strconv.Itoa(n))
		defer os.RemoveAll(dir)
		telemetry.Default = telemetry.NewDir(dir)
		os.MkdirAll(telemetry.Default.LocalDir(), 0777)
		telemetry.Default.SetModeAsOf("local", time.Date(2020, 1, 1, 0, 0, 0, 0, time.UTC))
		now, boundary := c09Now(t)
		CounterTime = func() time.Time { return now }
		wfile := filepath.Join(telemetry.Default.LocalDir(), "weekends")
		wkind := rapid.SampledFrom([]string{"digit", "digit", "digit", "digitNoNL", "same-weekday", "missing", "empty", "blank", "7", "9", "letter", "multi", "crlf"}).Draw(t, "weekendsKind")
		digit := rapid.IntRange(0, 6).Draw(t, "digit")
		if wkind == "same-weekday" {
			digit = vmodel.Weekday(c09Days(now))
			boundary = true
		}
		var content string
		switch wkind {
		case "digit", "same-weekday":
			content = fmt.Sprintf("%d\n", digit)
		case "digitNoNL":
			content = fmt.Sprintf("%d", digit)
		case "crlf":
			content = fmt.Sprintf(" %d\r\n", digit)
		case "empty":
			content = ""
		case "blank":
			content = " \n"
		case "7":
			content = "7\n"
		case "9":
			content = "9\n"
		case "letter":
			content = rapid.SampledFrom([]string{"x\n", "Sunday\n", "-1\n", "\x00"}).Draw(t, "letter")
		case "multi":
			content = fmt.Sprintf("%d%d\n", digit, rapid.IntRange(0, 9).Draw(t, "second"))
		}
		if wkind != "missing" {
			os.WriteFile(wfile, []byte(content), 0666)
		}
		wellFormed := wkind == "digit" || wkind == "digitNoNL" || wkind == "same-weekday" || wkind == "missing" || wkind == "crlf"

		var timers []struct {
			d time.Duration
			f func()
		}
		ctl := vhook.New()
		ctl.NowFn = func() time.Time { return now }
		ctl.AfterFn = func(d time.Duration, f func()) {
			timers = append(timers, struct {
				d time.Duration
				f func()
			}{d, f})
		}
		ctl.Install()
		defer vhook.Uninstall()

		f := &file{}
		defer func() {
			if m := f.current.Load(); m != nil {
				m.close()
			}
		}()
		useTimer := rapid.Bool().Draw(t, "viaRotate")
		if useTimer {
			f.rotate()
		} else {
			f.rotate1()
		}
		m := f.current.Load()
		desc := fmt.Sprintf("now=%s weekends=%q(%s)", now.Format(time.RFC3339Nano), content, wkind)
		if m == nil {
			if wellFormed {
				t.Fatalf("%s: opening failed: %v", desc, f.err)
			}
			// malformed setting: opening may fail; counts must then stay in memory
			c := &Counter{name: "x", file: f}
			c.Add(2)
			if c.state.load().extra() != 2 {
				t.Fatalf("%s: opening failed but the count is not kept in memory", desc)
			}
			if len(timers) != 0 {
				t.Fatalf("%s: opening failed but a rotation timer was armed", desc)
			}
			vstats.Case(desc+" -> open failed", boundary, "weekends:"+wkind, "open:failed")
			return
		}
		if wkind == "missing" {
			b, err := os.ReadFile(wfile)
			if err != nil || len(bytes.TrimSpace(b)) != 1 || b[0] < '0' || b[0] > '6' {
				t.Fatalf("%s: missing setting was not replaced by a digit 0..6: %q %v", desc, b, err)
			}
			digit = int(b[0] - '0')
		}
		today := c09Days(now)
		begin, end, _ := c09ReadMeta(t, m.f.Name())
		if !begin.Equal(c09Midnight(today)) {
			t.Fatalf("%s: TimeBegin = %s, want 00:00 UTC of the current day %s", desc, begin.Format(time.RFC3339), vmodel.DateString(today))
		}
		gotEndDays := c09Days(end.UTC())
		if !end.Equal(c09Midnight(gotEndDays)) || gotEndDays-today < 1 || gotEndDays-today > 7 {
			t.Fatalf("%s: TimeEnd = %s is not a midnight 1..7 days after %s", desc, end.Format(time.RFC3339), vmodel.DateString(today))
		}
		if wellFormed {
			_, wantEnd := vmodel.Span(today, digit)
			if gotEndDays != wantEnd {
				t.Fatalf("%s: TimeEnd = %s, want %s (first later day with weekday %d)", desc, end.Format("2006-01-02"), vmodel.DateString(wantEnd), digit)
			}
		}
		if !strings.Contains(filepath.Base(m.f.Name()), "-"+vmodel.DateString(today)+".v1.count") {
			t.Fatalf("%s: file name %s does not carry the begin date %s", desc, filepath.Base(m.f.Name()), vmodel.DateString(today))
		}
		if useTimer {
			want := end.Sub(now)
			if want < time.Minute {
				want = time.Minute
			}
			if len(timers) != 1 || timers[0].d != want {
				t.Fatalf("%s: after rotate() pending timers = %v, want exactly one with delay %v", desc, timers, want)
			}
		}

		// rotation history
		first := m.f.Name()
		c := &Counter{name: "c", file: f}
		c.Add(1)
		total := map[string]uint64{first: 1}
		curPath, curEnd := first, end
		nsteps := rapid.IntRange(1, 4).Draw(t, "nsteps")
		hist := []string{}
		for i := 0; i < nsteps; i++ {
			var adv time.Duration
			// The real API calls rotate1 when the file is opened and when the rotation timer fires at
			// (or, if the timer is late, after) the recorded end. Mid-span the clock simply advances.
			callRotate := true
			switch rapid.IntRange(0, 6).Draw(t, "advKind") {
			case 6:
				// the process sleeps for a year or several (a suspended machine, a forgotten daemon): the next rotation
				// comes on a day with the same, or nearly the same, day of the year as the day the file was begun
				days := rapid.SampledFrom([]int{365, 366, 364, 367, 730, 731, 1095, 1096, 1461, 3653}).Draw(t, "sleepDays")
				target := f.timeBegin.AddDate(0, 0, days).Add(time.Duration(rapid.IntRange(0, 86399).Draw(t, "sleepSec")) * time.Second)
				adv = target.Sub(now)
				vstats.Label("sleptForYears")
			case 0:
				adv = curEnd.Sub(now) // exactly at the end
				boundary = true
			case 1:
				adv = curEnd.Sub(now) - time.Nanosecond // 1 ns before the end: the timer has not fired
				callRotate = false
				boundary = true
			case 2:
				adv = curEnd.Sub(now) + time.Duration(rapid.IntRange(1, 3*86400).Draw(t, "past"))*time.Second
			case 3:
				// an early rotation call (what the test-only read API does): allowed to start a new
				// file, but then only one that ends at the same recorded end (same week)
				adv = time.Duration(rapid.IntRange(0, 3*86400).Draw(t, "adv")) * time.Second
			default:
				adv = time.Duration(rapid.IntRange(0, 3*86400).Draw(t, "adv")) * time.Second
				callRotate = !now.Add(adv).Before(curEnd)
			}
			if adv < 0 {
				adv = 0
			}
			now = now.Add(adv)
			if wellFormed && callRotate && !now.Before(curEnd) && rapid.IntRange(0, 2).Draw(t, "settingChanges") == 0 {
				// the week-end setting is changed while the process runs (the file is rewritten, or removed and
				// created again): the span of the next file follows the setting in force when that file is opened
				digit = rapid.IntRange(0, 6).Draw(t, "newDigit")
				os.WriteFile(wfile, []byte(fmt.Sprintf("%d\n", digit)), 0666)
				vstats.Label("weekendSettingChangedBetweenRotations")
			}
			frozen, _ := os.ReadFile(curPath)
			firedTimer := false
			if !callRotate {
				// nothing: the process keeps running
			} else if useTimer && len(timers) > 0 && !now.Before(curEnd) && rapid.Bool().Draw(t, "fireTimer") {
				tm := timers[len(timers)-1]
				timers = timers[:len(timers)-1]
				tm.f()
				firedTimer = true
			} else {
				f.rotate1()
			}
			m2 := f.current.Load()
			if m2 == nil {
				t.Fatalf("%s: rotation at %s closed the file: %v", desc, now.Format(time.RFC3339Nano), f.err)
			}
			if firedTimer {
				// a rotation driven by the timer arms the timer for the next recorded end: the process rotates
				// week after week without anybody calling it
				_, e3, _ := c09ReadMeta(t, m2.f.Name())
				want := e3.Sub(now)
				if want < time.Minute {
					want = time.Minute
				}
				if len(timers) != 1 || timers[0].d != want {
					t.Fatalf("%s: after the rotation timer fired at %s, pending timers = %d (%v), want exactly one with delay %v (next end %s)", desc, now.Format(time.RFC3339Nano), len(timers), timers, want, e3.Format(time.RFC3339))
				}
				vstats.Label("timerRearmed")
			}
			expectNew := !now.Before(curEnd)
			if expectNew && m2.f.Name() == curPath {
				t.Fatalf("%s: at %s the recorded end %s is reached, but the process still uses %s", desc, now.Format(time.RFC3339Nano), curEnd.Format(time.RFC3339), filepath.Base(curPath))
			}
			if !expectNew && m2.f.Name() != curPath {
				if !callRotate {
					t.Fatalf("%s: the file changed at %s without a rotation", desc, now.Format(time.RFC3339Nano))
				}
				_, e2, _ := c09ReadMeta(t, m2.f.Name())
				if !e2.Equal(curEnd) {
					t.Fatalf("%s: early rotation at %s started a file ending %s although the recorded end is %s", desc, now.Format(time.RFC3339Nano), e2.Format(time.RFC3339), curEnd.Format(time.RFC3339))
				}
				vstats.Label("note:early-rotation-new-file-same-week")
				expectNew = true
			}
			oldPath := curPath
			if expectNew {
				b2, e2, _ := c09ReadMeta(t, m2.f.Name())
				d2 := c09Days(now)
				_, wantEnd := vmodel.Span(d2, digit)
				if !b2.Equal(c09Midnight(d2)) || (wellFormed && !e2.Equal(c09Midnight(wantEnd))) {
					t.Fatalf("%s: next span at %s is %s..%s, want %s..%s", desc, now.Format(time.RFC3339), b2.Format(time.RFC3339), e2.Format(time.RFC3339),
						vmodel.DateString(d2), vmodel.DateString(wantEnd))
				}
				curPath, curEnd = m2.f.Name(), e2
			}
			c.Add(int64(i + 2))
			total[curPath] += uint64(i + 2)
			if expectNew {
				after, _ := os.ReadFile(oldPath)
				if !bytes.Equal(after, frozen) {
					t.Fatalf("%s: increments after the rotation changed the old file %s", desc, filepath.Base(oldPath))
				}
			}
			hist = append(hist, fmt.Sprintf("+%v->%s", adv, filepath.Base(curPath)))
		}
		for p, want := range total {
			data, _ := os.ReadFile(p)
			vf, err := vformat.Decode(data)
			if err != nil {
				t.Fatalf("%s: %s: %v", desc, p, err)
			}
			if vf.Count["c"] != want {
				t.Fatalf("%s: file %s holds c=%d, the increments made during its span sum to %d", desc, filepath.Base(p), vf.Count["c"], want)
			}
		}
		vstats.Case(desc+" "+strings.Join(hist, " "), boundary, "weekends:"+wkind, fmt.Sprintf("files:%d", len(total)), fmt.Sprintf("viaTimer:%v", useTimer))
	})
}

// TestVerifC09Table: the full 7 x 7 (weekday of today x configured day) table
// around leap and non-leap year ends, exhaustively.
func TestVerifC09Table(t *testing.T) {
	defer vstats.Flush()
	CrashOnBugs = false
	base := t.TempDir()
	n := 0
	for _, y := range []int{2023, 2024, 2099, 2100, 1999, 2000} {
		for _, start := range [][2]int{{12, 25}, {2, 23}} {
			d0 := vmodel.DaysFromCivil(y, start[0], start[1])
			for off := 0; off < 7+3; off++ {
				for digit := 0; digit < 7; digit++ {
					n++
					dir := filepath.Join(base, strconv.Itoa(n))
					telemetry.Default = telemetry.NewDir(dir)
					os.MkdirAll(telemetry.Default.LocalDir(), 0777)
					telemetry.Default.SetModeAsOf("local", time.Date(2020, 1, 1, 0, 0, 0, 0, time.UTC))
					os.WriteFile(filepath.Join(telemetry.Default.LocalDir(), "weekends"), []byte(fmt.Sprintf("%d\n", digit)), 0666)
					today := d0 + off
					now := c09Midnight(today).Add(13 * time.Hour)
					CounterTime = func() time.Time { return now }
					begin, end, err := counterSpan()
					_, wantEnd := vmodel.Span(today, digit)
					desc := fmt.Sprintf("today=%s(weekday %d) setting=%d", vmodel.DateString(today), vmodel.Weekday(today), digit)
					if err != nil || !begin.Equal(c09Midnight(today)) || !end.Equal(c09Midnight(wantEnd)) {
						t.Fatalf("%s: span %v..%v (%v), want %s..%s", desc, begin, end, err, vmodel.DateString(today), vmodel.DateString(wantEnd))
					}
					vstats.Case(desc+" -> end "+vmodel.DateString(wantEnd), true, "table")
					os.RemoveAll(dir)
				}
			}
		}
	}
}

// TestVerifC09TickingClock: the clock is not frozen while a file is opened. Every
// reading of the current time is a little later than the one before (and the
// sequence may cross midnight), as with a real clock. The span must still be
// one consistent span: it begins at 00:00 UTC of a day the clock showed during
// the open, ends at 00:00 UTC of the first later day on the configured weekday,
// and the file name carries the begin date.
func TestVerifC09TickingClock(t *testing.T) {
	defer vstats.Flush()
	base := t.TempDir()
	n := 0
	rapid.Check(t, func(t *rapid.T) {
		CrashOnBugs = false
		n++
		dir := filepath.Join(base, "tick"+strconv.Itoa(n))
		defer os.RemoveAll(dir)
		telemetry.Default = telemetry.NewDir(dir)
		os.MkdirAll(telemetry.Default.LocalDir(), 0777)
		telemetry.Default.SetModeAsOf("local", time.Date(2020, 1, 1, 0, 0, 0, 0, time.UTC))
		day, _ := c09Now(t)
		midnight := c09Midnight(c09Days(day) + 1)
		step := rapid.SampledFrom([]time.Duration{time.Nanosecond, time.Microsecond, time.Millisecond, time.Second}).Draw(t, "step")
		// the first reading lies 0..5 steps before midnight, or anywhere in the day
		start := midnight.Add(-time.Duration(rapid.IntRange(0, 5).Draw(t, "stepsBeforeMidnight")) * step)
		if rapid.IntRange(0, 3).Draw(t, "anywhere") == 0 {
			start = day
		}
		digit := rapid.IntRange(0, 6).Draw(t, "digit")
		os.WriteFile(filepath.Join(telemetry.Default.LocalDir(), "weekends"), []byte(fmt.Sprintf("%d\n", digit)), 0666)
		var readings []time.Time
		CounterTime = func() time.Time {
			tm := start.Add(time.Duration(len(readings)) * step)
			readings = append(readings, tm)
			return tm
		}
		defer func() { CounterTime = func() time.Time { return time.Now().UTC() } }()
		f := &file{}
		defer func() {
			if m := f.current.Load(); m != nil {
				m.close()
			}
		}()
		f.rotate1()
		m := f.current.Load()
		desc := fmt.Sprintf("clock %s +%v per reading (%d readings) weekends=%d", start.Format(time.RFC3339Nano), step, len(readings), digit)
		if m == nil {
			t.Fatalf("%s: opening failed: %v", desc, f.err)
		}
		if len(readings) == 0 {
			t.Fatalf("%s: the clock was never read", desc)
		}
		begin, end, _ := c09ReadMeta(t, m.f.Name())
		first, last := c09Days(readings[0]), c09Days(readings[len(readings)-1])
		bd := c09Days(begin.UTC())
		if !begin.Equal(c09Midnight(bd)) || bd < first || bd > last {
			t.Fatalf("%s: TimeBegin = %s is not 00:00 UTC of a day the clock showed while the file was opened (%s..%s)", desc, begin.Format(time.RFC3339Nano), vmodel.DateString(first), vmodel.DateString(last))
		}
		_, wantEnd := vmodel.Span(bd, digit)
		if !end.Equal(c09Midnight(wantEnd)) {
			t.Fatalf("%s: the span is %s..%s; the first day after the begin that falls on weekday %d is %s", desc, begin.Format("2006-01-02"), end.Format(time.RFC3339), digit, vmodel.DateString(wantEnd))
		}
		if !strings.Contains(filepath.Base(m.f.Name()), "-"+vmodel.DateString(bd)+".v1.count") {
			t.Fatalf("%s: file name %s does not carry the begin date %s", desc, filepath.Base(m.f.Name()), vmodel.DateString(bd))
		}
		crossed := first != last
		// non-trivial: a few more readings would have crossed midnight
		near := !start.Before(midnight.Add(-5*step)) && start.Before(midnight)
		vstats.Case(desc, near, fmt.Sprintf("crossedMidnight:%v", crossed), fmt.Sprintf("nearMidnight:%v", near), fmt.Sprintf("readings:%d", min(len(readings), 6)))
	})
}

// TestVerifC09ExistingFile: a counter file of today's name already exists, written earlier the same day under
// another week-end setting (the setting file was replaced, or two first runs raced for it). A process that opens
// counters now either does not use that file (its counts stay in memory) or uses a file whose recorded span is
// the one it computes itself: it never counts into a file whose recorded end differs from the end it rotates by.
func TestVerifC09ExistingFile(t *testing.T) {
	defer vstats.Flush()
	base := t.TempDir()
	n := 0
	rapid.Check(t, func(t *rapid.T) {
		CrashOnBugs = false
		n++
		dir := filepath.Join(base, "ex"+strconv.Itoa(n))
		defer os.RemoveAll(dir)
		telemetry.Default = telemetry.NewDir(dir)
		os.MkdirAll(telemetry.Default.LocalDir(), 0777)
		telemetry.Default.SetModeAsOf("local", time.Date(2020, 1, 1, 0, 0, 0, 0, time.UTC))
		now, _ := c09Now(t)
		CounterTime = func() time.Time { return now }
		defer func() { CounterTime = func() time.Time { return time.Now().UTC() } }()
		wfile := filepath.Join(telemetry.Default.LocalDir(), "weekends")
		d1 := rapid.IntRange(0, 6).Draw(t, "firstSetting")
		d2 := rapid.IntRange(0, 6).Draw(t, "secondSetting")
		os.WriteFile(wfile, []byte(fmt.Sprintf("%d\n", d1)), 0666)
		f1 := &file{}
		f1.rotate1()
		m1 := f1.current.Load()
		if m1 == nil {
			t.Fatalf("first open failed: %v", f1.err)
		}
		(&Counter{name: "c", file: f1}).Add(3)
		path1 := m1.f.Name()
		_, end1, _ := c09ReadMeta(t, path1)
		m1.close()
		// later the same day (possibly the same instant), under the second setting
		now = now.Add(time.Duration(rapid.IntRange(0, 3600).Draw(t, "laterSeconds")) * time.Second)
		if c09Days(now) != c09Days(now.Add(-time.Hour)) && rapid.Bool().Draw(t, "stayInDay") {
			now = c09Midnight(c09Days(now)) // stay at the start of the new day instead
		}
		os.WriteFile(wfile, []byte(fmt.Sprintf("%d\n", d2)), 0666)
		f2 := &file{}
		expiry := f2.rotate1()
		c := &Counter{name: "c", file: f2}
		c.Add(4)
		desc := fmt.Sprintf("now=%s settings %d then %d", now.Format(time.RFC3339), d1, d2)
		m2 := f2.current.Load()
		if m2 == nil {
			if c.state.load().extra() != 4 {
				t.Fatalf("%s: the second open failed (%v) but its count is not kept in memory", desc, f2.err)
			}
			vstats.Case(desc+" -> second open refused", d1 != d2, "secondOpen:refused")
			return
		}
		defer m2.close()
		b2, e2, vf := c09ReadMeta(t, m2.f.Name())
		_, wantEnd := vmodel.Span(c09Days(now), d2)
		if !b2.Equal(c09Midnight(c09Days(now))) || !e2.Equal(c09Midnight(wantEnd)) {
			t.Fatalf("%s: the process counts into %s, whose recorded span is %s..%s; under its setting the span is %s..%s (an earlier file of the same day ended %s)", desc, filepath.Base(m2.f.Name()),
				b2.Format("2006-01-02"), e2.Format("2006-01-02"), vmodel.DateString(c09Days(now)), vmodel.DateString(wantEnd), end1.Format("2006-01-02"))
		}
		if !expiry.Equal(e2) {
			t.Fatalf("%s: the process will rotate at %s but the file it counts into records the end %s", desc, expiry.Format(time.RFC3339), e2.Format(time.RFC3339))
		}
		_ = vf
		vstats.Case(desc+" -> second open used "+filepath.Base(m2.f.Name()), d1 != d2, "secondOpen:mapped", fmt.Sprintf("sameFile:%v", m2.f.Name() == path1))
	})
}
