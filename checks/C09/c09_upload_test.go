package upload

// C09 — uploader side and end to end: a file is finished exactly when its
// recorded end is before the start time, and is reported under the week named
// by that end date; counts made before/after a rotation land under the weeks
// the calendar model names.

import (
	"bytes"
	"encoding/json"
	"fmt"
	"os"
	"path/filepath"
	"testing"
	"time"

	"golang.org/x/telemetry/internal/counter"
	"golang.org/x/telemetry/internal/telemetry"
	"golang.org/x/telemetry/internal/verif/vmodel"
	"golang.org/x/telemetry/internal/verif/vstats"
	"pgregory.net/rapid"
)

func c09uMidnight(days int) time.Time {
	y, m, d := vmodel.CivilFromDays(days)
	return time.Date(y, time.Month(m), d, 0, 0, 0, 0, time.UTC)
}

func TestVerifC09EndToEnd(t *testing.T) {
	defer vstats.Flush()
	base := t.TempDir()
	rapid.Check(t, func(t *rapid.T) {
		counter.CrashOnBugs = false
		dir := vuFreshDir(base)
		defer os.RemoveAll(dir)
		telemetry.Default = telemetry.NewDir(dir)
		vuSetMode(dir, "local")
		// the zone of the process that counts and uploads (weeks and days are UTC whatever the local zone is)
		if lz := rapid.SampledFrom([]int{0, 0, -8 * 3600, -12 * 3600, 14 * 3600, 5*3600 + 1800}).Draw(t, "processZone"); lz != 0 {
			saved := time.Local
			time.Local = time.FixedZone("local", lz)
			defer func() { time.Local = saved }()
			vstats.Label("processInOtherZone")
		}
		digit := rapid.IntRange(0, 6).Draw(t, "weekendDigit")
		os.WriteFile(filepath.Join(dir, "local", "weekends"), []byte(fmt.Sprintf("%d\n", digit)), 0666)
		day0 := rapid.IntRange(vmodel.DaysFromCivil(1990, 1, 1), vmodel.DaysFromCivil(2090, 12, 1)).Draw(t, "day0")
		if rapid.IntRange(0, 3).Draw(t, "yearEnd") == 0 {
			day0 = vmodel.DaysFromCivil(rapid.IntRange(1990, 2089).Draw(t, "y"), 12, rapid.IntRange(25, 31).Draw(t, "dec"))
		}
		now := c09uMidnight(day0).Add(time.Duration(rapid.IntRange(0, 86399).Draw(t, "sec0")) * time.Second)
		counter.CounterTime = func() time.Time { return now }
		defer func() { counter.CounterTime = func() time.Time { return time.Now().UTC() } }()
		vf := counter.VNewFile()
		defer vf.Close()
		vf.Rotate1()
		if vf.Path() == "" {
			t.Fatalf("open failed: %v", vf.Err())
		}
		type span struct {
			path     string
			end      int // day number of the recorded end per the calendar model
			sum      int64
			original []byte
		}
		_, e0 := vmodel.Span(day0, digit)
		spans := []*span{{path: vf.Path(), end: e0}}
		c := vf.Counter("a/b")
		nops := rapid.IntRange(1, 6).Draw(t, "nops")
		boundary := false
		for i := 0; i < nops; i++ {
			cur := spans[len(spans)-1]
			switch rapid.IntRange(0, 2).Draw(t, "op") {
			case 0, 1:
				n := int64(rapid.IntRange(1, 50).Draw(t, "n"))
				c.Add(n)
				cur.sum += n
			case 2:
				endT := c09uMidnight(cur.end)
				var adv time.Duration
				rotate := true
				switch rapid.IntRange(0, 3).Draw(t, "advKind") {
				case 0:
					adv = endT.Sub(now)
					boundary = true
				case 1:
					adv = endT.Sub(now) - time.Nanosecond // the rotation timer has not fired yet
					rotate = false
					boundary = true
				default:
					adv = time.Duration(rapid.IntRange(0, 10*86400).Draw(t, "advSec")) * time.Second
					rotate = !now.Add(adv).Before(endT) // the timer fires at (or after) the recorded end
				}
				if adv < 0 {
					adv = 0
				}
				now = now.Add(adv)
				if rotate {
					vf.Rotate1()
				}
				if !now.Before(endT) {
					d := vmodel.DaysFromCivil(now.Year(), int(now.Month()), now.Day())
					_, e := vmodel.Span(d, digit)
					if vf.Path() == cur.path {
						t.Fatalf("at %s the recorded end %s is reached but the process still uses %s", now.Format(time.RFC3339Nano), endT.Format(time.RFC3339), filepath.Base(cur.path))
					}
					spans = append(spans, &span{path: vf.Path(), end: e})
				} else if vf.Path() != cur.path {
					t.Fatalf("at %s (before the recorded end %s) the process switched to %s", now.Format(time.RFC3339Nano), endT.Format(time.RFC3339), filepath.Base(vf.Path()))
				}
			}
		}
		vf.Close()
		for _, s := range spans {
			s.original, _ = os.ReadFile(s.path)
		}
		// upload start time relative to the end instant of one of the spans
		ref := spans[rapid.IntRange(0, len(spans)-1).Draw(t, "refSpan")]
		delta := rapid.SampledFrom([]time.Duration{-time.Second, -time.Nanosecond, 0, time.Nanosecond, time.Second, 36 * time.Hour, 30 * 24 * time.Hour, -3 * 24 * time.Hour,
			3 * time.Hour, 9 * time.Hour, -5 * time.Hour}).Draw(t, "delta")
		if delta.Abs() <= time.Second {
			boundary = true
		}
		start := c09uMidnight(ref.end).Add(delta)
		// the same instant may be handed over in any location (the start time is an instant; a caller may pass time.Now())
		if zone := rapid.SampledFrom([]int{0, 0, 0, -8 * 3600, 13 * 3600, -(11*3600 + 1800), 5*3600 + 2700}).Draw(t, "startZoneOffset"); zone != 0 {
			start = start.In(time.FixedZone("zone", zone))
			vstats.Label("startInOtherZone")
		}
		u := vuUploader(dir, &telemetry.UploadConfig{}, "v0.0.0-0", "http://127.0.0.1:1", start)
		if err := u.Run(); err != nil {
			t.Fatalf("Run: %v", err)
		}
		// spans with the same end date are one week
		weekSum := map[string]int64{}
		weekDone := map[string]bool{}
		for _, s := range spans {
			wk := vmodel.DateString(s.end)
			finished := c09uMidnight(s.end).Before(start)
			if s.sum == 0 {
				// a file without counters produces no report on its own; skip the value clause
				continue
			}
			if finished {
				weekSum[wk] += s.sum
				weekDone[wk] = true
			} else {
				data, err := os.ReadFile(s.path)
				if err != nil || !bytes.Equal(data, s.original) {
					t.Fatalf("start %s: file %s with recorded end %s is not finished, but was consumed or changed (%v)", start.Format(time.RFC3339Nano), filepath.Base(s.path), wk, err)
				}
				if _, err := os.Stat(filepath.Join(dir, "local", "local."+wk+".json")); err == nil && !weekDone[wk] {
					t.Fatalf("start %s: a report for week %s exists although its file has not ended", start.Format(time.RFC3339Nano), wk)
				}
			}
		}
		for wk, want := range weekSum {
			data, err := os.ReadFile(filepath.Join(dir, "local", "local."+wk+".json"))
			if err != nil {
				t.Fatalf("start %s: file(s) with recorded end %s are finished but there is no report under that week: %v", start.Format(time.RFC3339Nano), wk, err)
			}
			var rep telemetry.Report
			if err := json.Unmarshal(data, &rep); err != nil {
				t.Fatal(err)
			}
			var got int64
			for _, p := range rep.Programs {
				got += p.Counters["a/b"]
			}
			if rep.Week != wk || got != want {
				t.Fatalf("report local.%s.json: Week=%q a/b=%d; the counts made during that span sum to %d", wk, rep.Week, got, want)
			}
		}
		ents, _ := os.ReadDir(filepath.Join(dir, "local"))
		for _, e := range ents {
			name := e.Name()
			if len(name) == len("local.2006-01-02.json") && name[:6] == "local." {
				if _, ok := weekSum[name[6:16]]; !ok {
					t.Fatalf("unexpected report %s (start %s)", name, start.Format(time.RFC3339Nano))
				}
			}
		}
		vstats.Case(fmt.Sprintf("weekend=%d t0=%s spans=%d start=end(%s)%+v", digit, c09uMidnight(day0).Format("2006-01-02"), len(spans), vmodel.DateString(ref.end), delta),
			boundary, fmt.Sprintf("spans:%d", len(spans)), fmt.Sprintf("boundary:%v", boundary))
	})
}
