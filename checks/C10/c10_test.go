package counter

// C10 — Written counter files conform to the documented v1 on-disk format.
//
// Identifiers of the package under test this harness relies on:
//   file{current}, (*file).rotate1, Counter{name,file}, (*Counter).Add,
//   openMapped, (*mappedFile).{lookup,newCounter,place,close,hdrLen},
//   CounterTime, CrashOnBugs, maxNameLen

import (
	"fmt"
	"os"
	"path/filepath"
	"reflect"
	"sort"
	"strconv"
	"strings"
	"testing"
	"time"

	"golang.org/x/telemetry/internal/telemetry"
	"golang.org/x/telemetry/internal/verif/vformat"
	"golang.org/x/telemetry/internal/verif/vgen"
	"golang.org/x/telemetry/internal/verif/vstats"
	"pgregory.net/rapid"
)

type c10State struct {
	path      string
	meta      string // expected raw metadata ("" = unknown until first read)
	model     map[string]uint64
	lastLimit uint32
	lastSize  int
	twoPages  bool
	collide   bool
	nearTail  bool
	writers   int
}

func satAdd(a, b uint64) uint64 {
	if a+b < a {
		return ^uint64(0)
	}
	return a + b
}

// c10Check decodes the file with the independent codec and compares it with the model.
func (s *c10State) check(t *rapid.T, when string) {
	data, err := os.ReadFile(s.path)
	if err != nil {
		t.Fatalf("%s: reading file: %v", when, err)
	}
	f, err := vformat.Decode(data)
	if err != nil {
		t.Fatalf("%s: independent decoder rejects the file: %v", when, err)
	}
	if p := f.Validate(); len(p) > 0 {
		t.Fatalf("%s: file violates the v1 layout: %s", when, strings.Join(p, "; "))
	}
	if s.meta != "" && f.RawMeta != s.meta {
		t.Fatalf("%s: metadata in file %q, want %q", when, f.RawMeta, s.meta)
	}
	if f.HdrLen != vformat.HeaderLen(f.RawMeta) {
		t.Fatalf("%s: header length %d, layout says %d for %d bytes of metadata", when, f.HdrLen, vformat.HeaderLen(f.RawMeta), len(f.RawMeta))
	}
	if f.Limit < s.lastLimit {
		t.Fatalf("%s: allocation limit decreased %#x -> %#x", when, s.lastLimit, f.Limit)
	}
	if len(data) < s.lastSize {
		t.Fatalf("%s: file shrank %d -> %d", when, s.lastSize, len(data))
	}
	s.lastLimit, s.lastSize = f.Limit, len(data)
	if len(f.Count) != len(s.model) {
		t.Fatalf("%s: file has %d counters, model %d (%s)", when, len(f.Count), len(s.model), c10Diff(s.model, f.Count))
	}
	for k, v := range s.model {
		if got, ok := f.Count[k]; !ok || got != v {
			t.Fatalf("%s: counters differ: %s", when, c10Diff(s.model, f.Count))
		}
	}
	if len(data) > vformat.Page {
		s.twoPages = true
	}
	b := map[uint32]int{}
	for _, r := range f.Records {
		b[r.Bucket]++
		if b[r.Bucket] > 1 {
			s.collide = true
		}
		if r.End()%vformat.Page == 0 || (r.End()%vformat.Page) > vformat.Page-64 || r.Off%vformat.Page == 0 {
			s.nearTail = true
		}
	}
}

func c10Diff(a, b map[string]uint64) string {
	var d []string
	for k, v := range a {
		if w, ok := b[k]; !ok {
			d = append(d, fmt.Sprintf("missing %.20q(len %d)", k, len(k)))
		} else if w != v {
			d = append(d, fmt.Sprintf("%.20q: want %d got %d", k, v, w))
		}
	}
	for k := range b {
		if _, ok := a[k]; !ok {
			d = append(d, fmt.Sprintf("extra %.20q(len %d)", k, len(k)))
		}
	}
	sort.Strings(d)
	if len(d) > 6 {
		d = d[:6]
	}
	return strings.Join(d, "; ")
}

var c10Seq int

func c10Dir(tb interface{ Fatal(...any) }, base string) string {
	c10Seq++
	d := filepath.Join(base, strconv.Itoa(c10Seq))
	if err := os.MkdirAll(d, 0777); err != nil {
		tb.Fatal(err)
	}
	return d
}

// c10Amount draws an increment for the Counter API. A single Add is parked in
// the 33-bit pending field before it reaches the file, so amounts stay below
// the documented pending saturation limit 2^33-1 (saturation itself is C03's
// subject); large persisted values are covered at the mapped-file level.
func c10Amount() *rapid.Generator[int64] {
	return rapid.OneOf(rapid.Int64Range(1, 100), rapid.Int64Range(1, 1<<33-2), rapid.Just(int64(1<<33-2)))
}

func c10NameGen() *rapid.Generator[string] {
	return rapid.OneOf(vgen.Name(), vgen.Name(),
		rapid.Custom(func(t *rapid.T) string { // long names that fill pages quickly
			n := rapid.IntRange(3000, 4096).Draw(t, "longLen")
			return fmt.Sprintf("L%04d", rapid.IntRange(0, 9999).Draw(t, "longId")) + strings.Repeat("z", n-5)
		}))
}

// TestVerifC10Ops drives the real counter API (file + Counter) with one to
// three independent writers of the same weekly file.
func TestVerifC10Ops(t *testing.T) {
	defer vstats.Flush()
	base := t.TempDir()
	rapid.Check(t, func(t *rapid.T) {
		CrashOnBugs = false
		dir := c10Dir(t, base)
		defer os.RemoveAll(dir)
		telemetry.Default = telemetry.NewDir(dir)
		os.MkdirAll(telemetry.Default.LocalDir(), 0777)
		os.WriteFile(filepath.Join(telemetry.Default.LocalDir(), "weekends"), []byte("3\n"), 0666)
		telemetry.Default.SetModeAsOf("local", time.Date(2020, 1, 1, 0, 0, 0, 0, time.UTC))
		now := time.Date(2024, 3, 4, 12, 0, 0, 0, time.UTC)
		CounterTime = func() time.Time { return now }

		type writer struct {
			f        *file
			counters map[string]*Counter
		}
		var ws []*writer
		defer func() {
			for _, w := range ws {
				if w.f != nil {
					if m := w.f.current.Load(); m != nil {
						m.close()
					}
				}
			}
		}()
		st := &c10State{model: map[string]uint64{}}
		open := func() {
			w := &writer{f: &file{}, counters: map[string]*Counter{}}
			w.f.rotate1()
			m := w.f.current.Load()
			if m == nil {
				t.Fatalf("rotate1 did not open a file: %v", w.f.err)
			}
			if st.path == "" {
				st.path = m.f.Name()
				st.meta = m.meta
			} else if st.path != m.f.Name() {
				t.Fatalf("second writer opened %s, first %s", m.f.Name(), st.path)
			}
			ws = append(ws, w)
			if len(ws) > st.writers {
				st.writers = len(ws)
			}
		}
		open()
		st.check(t, "after create")
		var known []string
		var trace []string
		t.Repeat(map[string]func(*rapid.T){
			"incNew": func(t *rapid.T) {
				w := ws[rapid.IntRange(0, len(ws)-1).Draw(t, "w")]
				name := c10NameGen().Draw(t, "name")
				n := c10Amount().Draw(t, "n")
				c := w.counters[name]
				if c == nil {
					c = &Counter{name: name, file: w.f}
					w.counters[name] = c
				}
				c.Add(n)
				if _, ok := st.model[name]; !ok {
					known = append(known, name)
				}
				st.model[name] = satAdd(st.model[name], uint64(n))
				trace = append(trace, fmt.Sprintf("inc(len=%d)", len(name)))
			},
			"incExisting": func(t *rapid.T) {
				if len(known) == 0 {
					t.Skip("no counters yet")
				}
				w := ws[rapid.IntRange(0, len(ws)-1).Draw(t, "w")]
				name := known[rapid.IntRange(0, len(known)-1).Draw(t, "k")]
				n := c10Amount().Draw(t, "n")
				c := w.counters[name]
				if c == nil {
					c = &Counter{name: name, file: w.f}
					w.counters[name] = c
				}
				c.Add(n)
				st.model[name] = satAdd(st.model[name], uint64(n))
				trace = append(trace, "incOld")
			},
			"secondWriter": func(t *rapid.T) {
				if len(ws) >= 3 {
					t.Skip("three writers already")
				}
				open()
				trace = append(trace, "open")
			},
			"closeReopen": func(t *rapid.T) {
				i := rapid.IntRange(0, len(ws)-1).Draw(t, "w")
				if m := ws[i].f.current.Load(); m != nil {
					m.close()
				}
				ws[i].f = nil
				ws = append(ws[:i], ws[i+1:]...)
				open()
				trace = append(trace, "reopen")
			},
			"": func(t *rapid.T) {
				last := "create"
				if len(trace) > 0 {
					last = trace[len(trace)-1]
				}
				st.check(t, "after "+last)
			},
		})
		nt := st.twoPages || st.collide || st.nearTail || st.writers > 1
		vstats.Case(fmt.Sprintf("ops=%v counters=%d size=%d limit=%#x", trace, len(st.model), st.lastSize, st.lastLimit), nt,
			fmt.Sprintf("twoPages:%v", st.twoPages), fmt.Sprintf("collide:%v", st.collide), fmt.Sprintf("nearTail:%v", st.nearTail),
			fmt.Sprintf("writers:%d", st.writers))
	})
}

// TestVerifC10Mapped works at the mapped-file level with generated metadata
// strings (up to the 512-byte cap) and files pre-built by the independent
// writer, which the library must read identically and extend correctly.
func TestVerifC10Mapped(t *testing.T) {
	defer vstats.Flush()
	base := t.TempDir()
	rapid.Check(t, func(t *rapid.T) {
		CrashOnBugs = false
		dir := c10Dir(t, base)
		defer os.RemoveAll(dir)
		path := filepath.Join(dir, "x.v1.count")
		kv := vgen.MetaKV(t, vformat.MaxMetaLen)
		meta := vformat.Meta(kv)
		wantMeta := map[string]string{}
		for _, e := range kv {
			wantMeta[e[0]] = e[1]
		}
		if rapid.IntRange(0, 4).Draw(t, "fullMeta") == 0 { // exactly at the cap
			meta = "K: " + strings.Repeat("m", vformat.MaxMetaLen-5) + "\n\n"
			wantMeta = map[string]string{"K": strings.Repeat("m", vformat.MaxMetaLen-5)}
		} else if rapid.IntRange(0, 4).Draw(t, "blankMetaLine") == 0 && len(meta) < vformat.MaxMetaLen-2 {
			// empty lines carry no key: they may stand anywhere between (or before) the key lines
			lines := strings.SplitAfter(meta, "\n")
			at := rapid.IntRange(0, len(lines)-1).Draw(t, "blankAt")
			meta = strings.Join(lines[:at], "") + "\n" + strings.Join(lines[at:], "")
		}
		st := &c10State{path: path, model: map[string]uint64{}, meta: strings.TrimRight(meta, "\x00")}
		prebuilt := rapid.Bool().Draw(t, "prebuilt")
		if prebuilt {
			names := vgen.DistinctNames(t, 0, 12, "pre")
			var recs []vformat.Rec
			for _, n := range names {
				r := vformat.Rec{Name: n, Value: vgen.Value().Draw(t, "preV"), Flags: 0xff}
				if rapid.IntRange(0, 3).Draw(t, "gap?") == 0 {
					r.Gap = uint32(rapid.IntRange(0, 600).Draw(t, "gap")) * 32
				}
				recs = append(recs, r)
				st.model[n] = r.Value
			}
			data, err := vformat.Encode(meta, recs, &vformat.Options{ExtraPages: rapid.IntRange(0, 1).Draw(t, "extra")})
			if err != nil {
				t.Fatalf("harness: %v", err)
			}
			if err := os.WriteFile(path, data, 0666); err != nil {
				t.Fatal(err)
			}
			// the library must read the independent writer's file identically
			pf, err := Parse(path, data)
			if err != nil {
				t.Fatalf("library rejects a file written by the independent writer: %v", err)
			}
			want := map[string]uint64{}
			clash := false
			for k, v := range st.model {
				e := vformat.ExpandStack(k)
				if _, dup := want[e]; dup {
					clash = true
				}
				want[e] = v
			}
			if !clash && (len(pf.Count) != len(want) || c10Diff(want, pf.Count) != "") {
				t.Fatalf("library reads the independent writer's file differently: %s", c10Diff(want, pf.Count))
			}
			if !reflect.DeepEqual(pf.Meta, wantMeta) {
				t.Fatalf("library reads the metadata of the independent writer's file as %q, written were %q (metadata block %q)", pf.Meta, wantMeta, meta)
			}
		}
		var ms []*mappedFile
		defer func() {
			for _, m := range ms {
				m.close()
			}
		}()
		open := func() {
			m, err := openMapped(path, meta)
			if err != nil {
				t.Fatalf("openMapped: %v", err)
			}
			ms = append(ms, m)
			if len(ms) > st.writers {
				st.writers = len(ms)
			}
		}
		open()
		st.check(t, "after open")
		var known []string
		for k := range st.model {
			known = append(known, k)
		}
		sort.Strings(known)
		var trace []string
		add := func(t *rapid.T, name string) {
			i := rapid.IntRange(0, len(ms)-1).Draw(t, "w")
			n := vgen.Value().Draw(t, "n")
			v, m1, err := ms[i].newCounter(name)
			if err != nil {
				t.Fatalf("newCounter(%.20q len %d): %v", name, len(name), err)
			}
			if m1 != nil {
				ms[i].close()
				ms[i] = m1
			}
			// the library's saturating add is in Counter.add; here plain wrap-free values only
			cur := v.Load()
			if cur+n < cur {
				n = ^uint64(0) - cur
			}
			v.Add(n)
			if _, ok := st.model[name]; !ok {
				known = append(known, name)
			}
			st.model[name] += n
		}
		t.Repeat(map[string]func(*rapid.T){
			"new": func(t *rapid.T) {
				name := c10NameGen().Draw(t, "name")
				add(t, name)
				trace = append(trace, fmt.Sprintf("new(len=%d)", len(name)))
			},
			"existing": func(t *rapid.T) {
				if len(known) == 0 {
					t.Skip("none")
				}
				add(t, known[rapid.IntRange(0, len(known)-1).Draw(t, "k")])
				trace = append(trace, "old")
			},
			"writer": func(t *rapid.T) {
				if len(ms) >= 3 {
					t.Skip("three")
				}
				open()
				trace = append(trace, "open")
			},
			"reopen": func(t *rapid.T) {
				i := rapid.IntRange(0, len(ms)-1).Draw(t, "w")
				ms[i].close()
				ms = append(ms[:i], ms[i+1:]...)
				open()
				trace = append(trace, "reopen")
			},
			"": func(t *rapid.T) { st.check(t, "after step") },
		})
		nt := st.twoPages || st.collide || st.nearTail || st.writers > 1
		vstats.Case(fmt.Sprintf("meta=%dB prebuilt=%v ops=%v counters=%d size=%d", len(meta), prebuilt, trace, len(st.model), st.lastSize), nt,
			fmt.Sprintf("twoPages:%v", st.twoPages), fmt.Sprintf("collide:%v", st.collide), fmt.Sprintf("nearTail:%v", st.nearTail),
			fmt.Sprintf("writers:%d", st.writers), fmt.Sprintf("prebuilt:%v", prebuilt))
	})
}

// TestVerifC10Place evaluates record placement for every (limit, name length)
// pair of a full 16 KiB page period (at two page offsets, plus the "first
// record" case for every legal header length): exhaustive, not sampled.
func TestVerifC10Place(t *testing.T) {
	defer vstats.Flush()
	shard, _ := strconv.Atoi(os.Getenv("VERIF_SHARD"))
	shards, _ := strconv.Atoi(os.Getenv("VERIF_SHARDS"))
	if shards == 0 {
		shards = 1
	}
	long := strings.Repeat("n", maxNameLen)
	var pairs, skips, unaligned int64
	checkOne := func(m *mappedFile, limit uint32, n int) {
		start, end := m.place(limit, long[:n])
		eff := limit
		if eff == 0 {
			eff = m.hdrLen + 4 + 4*512
		}
		size := vformat.RecSize(n)
		ws, we := vformat.Place(m.hdrLen, limit, n)
		bad := ""
		switch {
		case start%32 != 0:
			bad = "start not 32-byte aligned"
		case start < eff:
			bad = "start below the limit"
		case end != start+size:
			bad = fmt.Sprintf("end-start = %d, record size is %d", end-start, size)
		case start/vformat.Page != end/vformat.Page:
			bad = "record reaches the reserved end of its page"
		case start != vformat.Round(eff, 32) && vformat.Round(eff, 32)/vformat.Page == (vformat.Round(eff, 32)+size)/vformat.Page:
			bad = "skipped to another place although the record fits at the limit"
		case start != vformat.Round(eff, 32) && start != vformat.Round(eff, vformat.Page):
			bad = "skipped, but not to the start of the next page"
		case start != ws || end != we:
			bad = fmt.Sprintf("independent placement rule gives [%#x,%#x)", ws, we)
		}
		if bad != "" {
			t.Fatalf("place(hdrLen=%d, limit=%#x, nameLen=%d) = [%#x,%#x): %s", m.hdrLen, limit, n, start, end, bad)
		}
		pairs++
		if start != vformat.Round(eff, 32) {
			skips++
			if skips%4001 == 1 {
				vstats.Case(fmt.Sprintf("place(hdrLen=%d,limit=%#x,nameLen=%d)=[%#x,%#x) page-skip", m.hdrLen, limit, n, start, end), true, "place:skip")
			}
		} else if pairs%200003 == 1 {
			vstats.Case(fmt.Sprintf("place(hdrLen=%d,limit=%#x,nameLen=%d)=[%#x,%#x)", m.hdrLen, limit, n, start, end), true, "place:fit")
		}
	}
	for n := 1 + shard; n <= maxNameLen; n += shards {
		m := &mappedFile{hdrLen: 160}
		for _, pageBase := range []uint32{0, 5 * vformat.Page} {
			for limit := pageBase; limit < pageBase+vformat.Page; limit += 32 {
				if limit < vformat.FirstRecord(m.hdrLen) && limit != 0 {
					continue
				}
				checkOne(m, limit, n)
				// limits that are not a multiple of 32 (a file continued after another writer of the format, which
				// may count the limit in bytes): a rotating sixteenth of the aligned limits, four offsets each
				if (limit/32)%16 == uint32(n)%16 {
					for _, d := range []uint32{1, 4, 16, 31} {
						if limit != 0 && limit+d < pageBase+vformat.Page {
							checkOne(m, limit+d, n)
							unaligned++
						}
					}
				}
			}
		}
		for h := uint32(32); h <= 544; h += 32 { // every header length the library can write
			checkOne(&mappedFile{hdrLen: h}, 0, n)
		}
	}
	vstats.Note("place_pairs_enumerated", pairs)
	vstats.Note("place_pairs_with_page_skip", skips)
	vstats.Note("place_pairs_with_unaligned_limit", unaligned)
}
