package main

// C11 — uploader and server agree: the real server accepts every report the
// real uploader produces under the same configuration, and rejects reports
// that differ from an approved one in a single item.

import (
	"bytes"
	"context"
	"encoding/json"
	"fmt"
	"io"
	"net/http"
	"net/http/httptest"
	"os"
	"path/filepath"
	"sort"
	"strconv"
	"strings"
	"sync"
	"sync/atomic"
	"testing"
	"time"

	"golang.org/x/telemetry/godev/internal/config"
	"golang.org/x/telemetry/internal/telemetry"
	"golang.org/x/telemetry/internal/upload"
	"golang.org/x/telemetry/internal/verif/vgen"
	"golang.org/x/telemetry/internal/verif/vmodel"
	"golang.org/x/telemetry/internal/verif/vstats"
	"pgregory.net/rapid"
)

type c11Rec struct {
	path   string
	status int
	body   []byte
}

var c11Seq int

var c11Handle atomic.Value // http.Handler of the current case

func TestVerifC11UploaderServer(t *testing.T) {
	defer vstats.Flush()
	base := t.TempDir()
	srv := httptest.NewServer(http.HandlerFunc(func(w http.ResponseWriter, r *http.Request) {
		c11Handle.Load().(http.Handler).ServeHTTP(w, r)
	}))
	defer srv.Close()
	rapid.Check(t, func(t *rapid.T) {
		c11Seq++
		root := filepath.Join(base, strconv.Itoa(c11Seq))
		defer os.RemoveAll(root)
		os.MkdirAll(filepath.Join(root, "storage"), 0777)
		os.MkdirAll(filepath.Join(root, "tele", "local"), 0777)
		scn := vgen.UploadCase(t, vgen.FileOpts{MixedOS: true})
		// rates do not matter for acceptance; make most things pass sampling so that reports are not empty
		if rapid.Bool().Draw(t, "allRatesOne") {
			scn.Config.SampleRate = 1
			for _, p := range scn.Config.Programs {
				for i := range p.Counters {
					p.Counters[i].Rate = 1
				}
				for i := range p.Stacks {
					p.Stacks[i].Rate = 1
				}
			}
		}
		cfgFile := filepath.Join(root, "config.json")
		data, _ := json.Marshal(scn.Config)
		os.WriteFile(cfgFile, data, 0666)
		h := newHandler(context.Background(), &config.Config{
			LocalStorage: filepath.Join(root, "storage"), UploadBucket: "uploaded", MergedBucket: "merged", ChartDataBucket: "charted",
			UploadConfig: cfgFile, MaxRequestBytes: 100 * 1024, RequestTimeout: time.Minute, Env: "local"})
		var mu sync.Mutex
		var recs []c11Rec
		// one listening server for the whole test (a server per case exhausts the ephemeral ports under load);
		// its handler is the current case's
		c11Handle.Store(http.HandlerFunc(func(w http.ResponseWriter, r *http.Request) {
			body, _ := io.ReadAll(r.Body)
			r.Body = io.NopCloser(bytes.NewReader(body))
			rr := httptest.NewRecorder()
			h.ServeHTTP(rr, r)
			mu.Lock()
			recs = append(recs, c11Rec{r.URL.Path, rr.Code, body})
			mu.Unlock()
			w.WriteHeader(rr.Code)
			w.Write(rr.Body.Bytes())
		}))
		tele := filepath.Join(root, "tele")
		for _, f := range scn.Files {
			os.WriteFile(filepath.Join(tele, "local", f.Base), f.Bytes, 0666)
		}
		os.WriteFile(filepath.Join(tele, "mode"), []byte("on 2000-01-01"), 0666)
		if err := upload.VRun(tele, scn.Config, "v1.2.3", srv.URL+"/upload", scn.Start); err != nil {
			t.Fatalf("uploader: %v", err)
		}
		unlistedOS := false
		for _, f := range scn.Files {
			if !vmodel.BuildApprovedStrict(scn.Config, f.Build) && vmodel.BuildApproved(scn.Config, f.Build) {
				unlistedOS = true
			}
		}
		desc := fmt.Sprintf("cfg{%s} files=%d requests=%d", c11DescribeConfig(scn.Config), len(scn.Files), len(recs))
		var accepted []*telemetry.Report
		nonEmpty := false
		for _, r := range recs {
			if r.status != 200 {
				t.Fatalf("the server answered %d to a report produced by the uploader under the same configuration\n%s\nbody: %s", r.status, desc, r.body)
			}
			var rep telemetry.Report
			if err := json.Unmarshal(r.body, &rep); err != nil {
				t.Fatalf("uploader sent a non-report: %v", err)
			}
			if ok, why := vmodel.ReportValid(scn.Config, &rep); !ok {
				t.Fatalf("uploader output is not approved by the documented configuration semantics (%s)\n%s\nbody: %s", why, desc, r.body)
			}
			stored := filepath.Join(root, "storage", "uploaded", rep.Week, fmt.Sprintf("%g.json", rep.X))
			if _, err := os.Stat(stored); err != nil {
				t.Fatalf("accepted report was not stored: %v", err)
			}
			for _, p := range rep.Programs {
				if len(p.Counters)+len(p.Stacks) > 0 {
					nonEmpty = true
				}
			}
			// The uploader excludes exactly what the documented semantics exclude: the report holds the approved
			// part of the week's expired files and nothing from an excluded data set (e.g. a build for an unlisted
			// GOOS/GOARCH next to a listed build of the same program version).
			var expired []*vmodel.CountFile
			for _, f := range scn.Files {
				if f.Readable() && f.Week() == rep.Week && f.End.Before(scn.Start) {
					expired = append(expired, f)
				}
			}
			if agg, overflow := vmodel.Aggregate(expired); !overflow {
				got, _ := vmodel.FromReport(&rep)
				want := vmodel.Filter(scn.Config, agg, rep.X)
				for b := range want {
					if !vmodel.BuildApprovedStrict(scn.Config, b) {
						delete(want, b) // GOOS/GOARCH outside the configuration's lists
					}
				}
				if d := vmodel.DiffProgs(want, got); d != "" {
					t.Fatalf("the uploader's report for %s differs from what the configuration semantics approve of the local data: %s\n%s", rep.Week, d, desc)
				}
			}
			accepted = append(accepted, &rep)
		}
		// single-item mutations of accepted (or freshly generated approved) reports must be refused
		mutated := 0
		base := accepted
		if len(base) == 0 || rapid.Bool().Draw(t, "freshReport") {
			base = append(base, vgen.ApprovedReport(t, scn.Config))
		}
		for _, rep := range base {
			b, _ := json.Marshal(rep)
			var cp telemetry.Report
			json.Unmarshal(b, &cp)
			for _, p := range cp.Programs {
				if p.Counters == nil {
					p.Counters = map[string]int64{}
				}
				if p.Stacks == nil {
					p.Stacks = map[string]int64{}
				}
			}
			what := vgen.MutateReport(t, scn.Config, &cp)
			want, _ := vmodel.ReportValid(scn.Config, &cp)
			body, _ := json.Marshal(&cp)
			rr := httptest.NewRecorder()
			h.ServeHTTP(rr, httptest.NewRequest("POST", "/upload/2024-01-01", bytes.NewReader(body)))
			if want && rr.Code != 200 {
				t.Fatalf("server refused (%d) a report the documented semantics approve (mutation %q did not apply)\n%s\nbody: %s", rr.Code, what, desc, body)
			}
			if !want && (rr.Code < 400 || rr.Code > 499) {
				t.Fatalf("server answered %d to a report with one unapproved item (%s)\n%s\nbody: %s", rr.Code, what, desc, body)
			}
			if !want {
				mutated++
			}
		}
		var paths []string
		for _, r := range recs {
			paths = append(paths, r.path)
		}
		sort.Strings(paths)
		vstats.Case(desc+" "+strings.Join(paths, ","), (len(recs) > 0 && mutated > 0) || unlistedOS, fmt.Sprintf("requests:%d", min(len(recs), 3)),
			fmt.Sprintf("unlistedOS:%v", unlistedOS), fmt.Sprintf("nonEmptyReport:%v", nonEmpty), fmt.Sprintf("mutatedRejected:%d", mutated))
	})
}

func c11DescribeConfig(cfg *telemetry.UploadConfig) string {
	var sb strings.Builder
	fmt.Fprintf(&sb, "GOOS=%v GOARCH=%v Go=%v rate=%v", cfg.GOOS, cfg.GOARCH, cfg.GoVersion, cfg.SampleRate)
	for _, p := range cfg.Programs {
		fmt.Fprintf(&sb, " prog{%s v=%q #c=%d #s=%d}", p.Name, p.Versions, len(p.Counters), len(p.Stacks))
	}
	return sb.String()
}
