package view

// C11 — the local viewer describes a data set or counter as excluded from
// upload exactly when the real uploader would exclude it (compared at rate 1,
// where sampling does not interfere: the viewer cannot know X).
//
// Identifiers of the package under test this harness relies on:
//   newCounterFile, counterFile{Summary,ActiveMeta,Counts,Stacks}, count, stack.

import (
	"encoding/json"
	"fmt"
	"html"
	"io"
	"net/http"
	"net/http/httptest"
	"os"
	"path/filepath"
	"regexp"
	"sort"
	"strconv"
	"strings"
	"sync"
	"testing"
	"time"

	"golang.org/x/telemetry/internal/config"
	tcounter "golang.org/x/telemetry/internal/counter"
	"golang.org/x/telemetry/internal/telemetry"
	"golang.org/x/telemetry/internal/upload"
	"golang.org/x/telemetry/internal/verif/vgen"
	"golang.org/x/telemetry/internal/verif/vmodel"
	"golang.org/x/telemetry/internal/verif/vstats"
	"pgregory.net/rapid"
)

var c11CodeRE = regexp.MustCompile(`<code>(.*?)</code>`)

func TestVerifC11Viewer(t *testing.T) {
	defer vstats.Flush()
	base := t.TempDir()
	var mu sync.Mutex
	var bodies [][]byte
	srv := httptest.NewServer(http.HandlerFunc(func(w http.ResponseWriter, r *http.Request) {
		b, _ := io.ReadAll(r.Body)
		mu.Lock()
		bodies = append(bodies, b)
		mu.Unlock()
	}))
	defer srv.Close()
	n := 0
	rapid.Check(t, func(t *rapid.T) {
		n++
		dir := filepath.Join(base, strconv.Itoa(n))
		defer os.RemoveAll(dir)
		os.MkdirAll(filepath.Join(dir, "local"), 0777)
		ucfg := vgen.UploadConfig(t)
		ucfg.SampleRate = 1
		for _, p := range ucfg.Programs {
			for i := range p.Counters {
				p.Counters[i].Rate = 1
			}
			for i := range p.Stacks {
				p.Stacks[i].Rate = 1
			}
		}
		start := vgen.StartTime(t)
		end := vgen.Midnight(start).AddDate(0, 0, -1)
		var markers []string
		files := vgen.CountFiles(t, ucfg, []time.Time{end}, vgen.FileOpts{MixedOS: true, MaxFiles: 1}, &markers)
		f := files[0]
		os.WriteFile(filepath.Join(dir, "local", f.Base), f.Bytes, 0666)
		os.WriteFile(filepath.Join(dir, "mode"), []byte("on 2000-01-01"), 0666)

		// what the viewer says
		parsed, err := tcounter.Parse(f.Base, f.Bytes)
		if err != nil {
			t.Fatalf("harness: %v", err)
		}
		cfg := config.NewConfig(ucfg)
		cf := newCounterFile(f.Base, parsed, cfg)
		sum := string(cf.Summary)

		// what the uploader does
		mu.Lock()
		bodies = nil
		mu.Unlock()
		if err := upload.VRun(dir, ucfg, "v1.2.3", srv.URL, start); err != nil {
			t.Fatalf("uploader: %v", err)
		}
		mu.Lock()
		got := bodies
		mu.Unlock()
		if len(got) != 1 {
			t.Fatalf("harness: expected exactly one upload, got %d", len(got))
		}
		var rep telemetry.Report
		if err := json.Unmarshal(got[0], &rep); err != nil {
			t.Fatal(err)
		}
		desc := fmt.Sprintf("cfg{GOOS=%v GOARCH=%v Go=%v %s} file{%s@%s %s %s/%s %v}", ucfg.GOOS, ucfg.GOARCH, ucfg.GoVersion, c11Progs(ucfg),
			f.Program, f.Version, f.GoVersion, f.GOOS, f.GOARCH, c11Names(f.Counts))

		// data set level
		uploaderDropsAll := len(rep.Programs) == 0
		viewerDropsAll := strings.Contains(sum, "No data from this set would be uploaded")
		if uploaderDropsAll != viewerDropsAll {
			t.Fatalf("viewer says whole data set excluded = %v, the uploader dropped the program build = %v\nsummary: %s\n%s", viewerDropsAll, uploaderDropsAll, sum, desc)
		}
		// metadata flags against the documented configuration semantics
		wantMeta := map[string]bool{
			"Program":   c11Has(progNames(ucfg), f.Program),
			"Version":   vmodel.BuildApproved(ucfg, vmodel.Build{Program: f.Program, Version: f.Version, GoVersion: firstOr(ucfg.GoVersion, f.GoVersion)}) || c11HasVersion(ucfg, f.Program, f.Version),
			"GOOS":      c11Has(ucfg.GOOS, f.GOOS),
			"GOARCH":    c11Has(ucfg.GOARCH, f.GOARCH),
			"GoVersion": c11Has(ucfg.GoVersion, f.GoVersion),
		}
		wantMeta["Version"] = c11HasVersion(ucfg, f.Program, f.Version)
		for k, want := range wantMeta {
			if cf.ActiveMeta[k] != want {
				t.Fatalf("viewer marks %s active=%v, configuration says %v\n%s", k, cf.ActiveMeta[k], want, desc)
			}
		}
		oneExcluded, oneKept := false, false
		if !uploaderDropsAll {
			up := rep.Programs[0]
			// counter level: the Active flags
			for _, c := range cf.Counts {
				_, uploaded := up.Counters[c.Name]
				if c.Active != uploaded {
					t.Fatalf("viewer marks counter %q active=%v, the uploader uploaded it = %v\n%s", c.Name, c.Active, uploaded, desc)
				}
			}
			for _, s := range cf.Stacks {
				_, uploaded := up.Stacks[s.Name+"\n"+s.Trace]
				if s.Active != uploaded {
					t.Fatalf("viewer marks stack %q active=%v, the uploader uploaded it = %v\n%s", s.Name, s.Active, uploaded, desc)
				}
			}
			// the "would be excluded" list
			var want []string
			for name := range parsed.Count {
				show := name
				_, uploaded := up.Counters[name]
				if i := strings.IndexByte(name, '\n'); i >= 0 {
					show = name[:i]
					_, uploaded = up.Stacks[name]
				}
				if !uploaded {
					want = append(want, show)
					oneExcluded = true
				} else {
					oneKept = true
				}
			}
			var listed []string
			if i := strings.Index(sum, "Unregistered counter(s) "); i >= 0 {
				for _, m := range c11CodeRE.FindAllStringSubmatch(sum[i:], -1) {
					listed = append(listed, html.UnescapeString(m[1]))
				}
			}
			sort.Strings(want)
			sort.Strings(listed)
			if strings.Join(want, "\x00") != strings.Join(listed, "\x00") {
				t.Fatalf("viewer lists %q as excluded from a report, the uploader excluded %q\nsummary: %s\n%s", listed, want, sum, desc)
			}
		}
		vstats.Case(desc, (oneExcluded && oneKept) || (uploaderDropsAll && vmodel.BuildApproved(ucfg, f.Build)),
			fmt.Sprintf("dropsAll:%v", uploaderDropsAll), fmt.Sprintf("excluded:%v", oneExcluded), fmt.Sprintf("kept:%v", oneKept))
	})
}

func c11Has(list []string, s string) bool {
	for _, x := range list {
		if x == s {
			return true
		}
	}
	return false
}

func c11HasVersion(cfg *telemetry.UploadConfig, prog, v string) bool {
	for _, p := range cfg.Programs {
		if p.Name == prog && c11Has(p.Versions, v) {
			return true
		}
	}
	return false
}

func progNames(cfg *telemetry.UploadConfig) []string {
	var out []string
	for _, p := range cfg.Programs {
		out = append(out, p.Name)
	}
	return out
}

func firstOr(l []string, d string) string {
	if len(l) > 0 {
		return l[0]
	}
	return d
}

func c11Progs(cfg *telemetry.UploadConfig) string {
	var sb strings.Builder
	for _, p := range cfg.Programs {
		fmt.Fprintf(&sb, "prog{%s v=%q", p.Name, p.Versions)
		for _, c := range p.Counters {
			sb.WriteString(" " + c.Name)
		}
		for _, c := range p.Stacks {
			sb.WriteString(" stack:" + c.Name)
		}
		sb.WriteString("}")
	}
	return sb.String()
}

func c11Names(m map[string]uint64) []string {
	var out []string
	for k := range m {
		out = append(out, strings.ReplaceAll(k, "\n", "\\n"))
	}
	sort.Strings(out)
	return out
}
