package main

// C12 — simultaneous uploads: the server handles requests concurrently, and
// every user's report for a week arrives within the same few hours. Several
// valid reports (one week, different X, so different object names) are posted
// at the same moment from real goroutines; each must be answered 200 and each
// object must decode to exactly the report of that name. The schedule is the Go
// scheduler's (not reproducible step by step); the oracle holds for every
// interleaving, so a failure is a violation whatever the schedule was.

import (
	"encoding/json"
	"fmt"
	"os"
	"path/filepath"
	"reflect"
	"strings"
	"sync"
	"testing"

	"golang.org/x/telemetry/internal/telemetry"
	"golang.org/x/telemetry/internal/verif/vgen"
	"golang.org/x/telemetry/internal/verif/vstats"
	"pgregory.net/rapid"
)

func TestVerifC12Simultaneous(t *testing.T) {
	defer vstats.Flush()
	base := t.TempDir()
	rapid.Check(t, func(t *rapid.T) {
		ucfg := vgen.UploadConfig(t)
		env := c12NewEnv(t, base, ucfg, 100*1024)
		defer os.RemoveAll(env.root)
		n := rapid.IntRange(2, 8).Draw(t, "nclients")
		week := "2024-01-01"
		reps := make([]*telemetry.Report, n)
		bodies := make([][]byte, n)
		for i := range reps {
			rep := vgen.ApprovedReport(t, ucfg)
			rep.Week = week
			// distinct object names: X has 53 random bits and one uploader never has two requests for one report in
			// flight (it holds the week's lock), so two simultaneous requests for one name are not in the domain
			rep.X = float64(i+1) / 16
			reps[i] = rep
			b, _ := json.Marshal(rep)
			// trailing blanks make the body long enough for the writes to overlap
			b = append(b, []byte(strings.Repeat(" ", rapid.SampledFrom([]int{0, 1000, 30000, 90000}).Draw(t, "pad")))...)
			bodies[i] = b
		}
		codes := make([]int, n)
		var start, done sync.WaitGroup
		start.Add(1)
		for i := 0; i < n; i++ {
			i := i
			done.Add(1)
			go func() {
				defer done.Done()
				start.Wait()
				codes[i] = c12Do(env.handler, "POST", "/upload/"+week, bodies[i], i%2 == 0).Code
			}()
		}
		start.Done()
		done.Wait()
		byName := map[string][]int{}
		for i, rep := range reps {
			if codes[i] != 200 {
				t.Fatalf("%d simultaneous valid uploads for week %s: client %d (X=%g, %d bytes) was answered %d", n, week, i, rep.X, len(bodies[i]), codes[i])
			}
			name := fmt.Sprintf("%s/%g.json", week, rep.X)
			byName[name] = append(byName[name], i)
		}
		for name, clients := range byName {
			data, err := os.ReadFile(filepath.Join(env.root, "storage", "uploaded", name))
			if err != nil {
				t.Fatalf("%d simultaneous valid uploads: object %s of client(s) %v is not stored: %v", n, name, clients, err)
			}
			var got telemetry.Report
			if err := json.Unmarshal(data, &got); err != nil {
				t.Fatalf("%d simultaneous valid uploads: object %s is not a report (%d bytes): %v", n, name, len(data), err)
			}
			ok := false
			for _, i := range clients {
				var sent telemetry.Report
				json.Unmarshal(bodies[i], &sent)
				if reflect.DeepEqual(got, sent) {
					ok = true
				}
			}
			if !ok {
				t.Fatalf("%d simultaneous valid uploads: object %s decodes to a report that none of its clients %v sent", n, name, clients)
			}
		}
		ents, _ := os.ReadDir(filepath.Join(env.root, "storage", "uploaded", week))
		if len(ents) != len(byName) {
			var names []string
			for _, e := range ents {
				names = append(names, e.Name())
			}
			t.Fatalf("%d simultaneous valid uploads under %d names left %v in the bucket", n, len(byName), names)
		}
		vstats.Case(fmt.Sprintf("clients=%d names=%d", n, len(byName)), true, fmt.Sprintf("clients:%d", n))
	})
}
