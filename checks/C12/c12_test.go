package main

// C12 — The upload endpoint stores exactly the valid reports it is sent.
//
// Identifiers of the package under test this harness relies on: newHandler.

import (
	"bytes"
	"context"
	"encoding/json"
	"fmt"
	"io"
	"net/http"
	"net/http/httptest"
	"os"
	"path/filepath"
	"reflect"
	"strconv"
	"strings"
	"testing"
	"time"

	"golang.org/x/telemetry/godev/internal/config"
	"golang.org/x/telemetry/internal/telemetry"
	"golang.org/x/telemetry/internal/verif/vgen"
	"golang.org/x/telemetry/internal/verif/vmodel"
	"golang.org/x/telemetry/internal/verif/vsnap"
	"golang.org/x/telemetry/internal/verif/vstats"
	"pgregory.net/rapid"
)

type c12Env struct {
	root    string
	cfg     *config.Config
	ucfg    *telemetry.UploadConfig
	handler http.Handler
}

var c12Seq int

func c12NewEnv(t *rapid.T, base string, ucfg *telemetry.UploadConfig, maxBytes int64) *c12Env {
	c12Seq++
	root := filepath.Join(base, strconv.Itoa(c12Seq))
	if err := os.MkdirAll(filepath.Join(root, "storage"), 0777); err != nil {
		t.Fatal(err)
	}
	cfgFile := filepath.Join(root, "config.json")
	data, _ := json.Marshal(ucfg)
	os.WriteFile(cfgFile, data, 0666)
	cfg := &config.Config{
		LocalStorage: filepath.Join(root, "storage"), UploadBucket: "uploaded", MergedBucket: "merged", ChartDataBucket: "charted",
		UploadConfig: cfgFile, MaxRequestBytes: maxBytes, RequestTimeout: time.Minute, Env: "local",
	}
	return &c12Env{root: root, cfg: cfg, ucfg: ucfg, handler: newHandler(context.Background(), cfg)}
}

func c12Do(h http.Handler, method, path string, body []byte, unknownLength bool) *httptest.ResponseRecorder {
	var rd io.Reader = bytes.NewReader(body)
	if unknownLength {
		rd = struct{ io.Reader }{rd} // no declared Content-Length (what a chunked request looks like to the handler)
	}
	req := httptest.NewRequest(method, path, rd)
	req.Header.Set("Content-Type", "application/json")
	rec := httptest.NewRecorder()
	h.ServeHTTP(rec, req)
	return rec
}

func TestVerifC12Upload(t *testing.T) {
	defer vstats.Flush()
	base := t.TempDir()
	rapid.Check(t, func(t *rapid.T) {
		ucfg := vgen.UploadConfig(t)
		maxBytes := rapid.SampledFrom([]int64{2000, 2000, 100 * 1024}).Draw(t, "maxRequestBytes")
		env := c12NewEnv(t, base, ucfg, maxBytes)
		defer os.RemoveAll(env.root)
		nreq := rapid.IntRange(1, 4).Draw(t, "nreq")
		var descs []string
		wellTyped := false
		var lastStored *telemetry.Report
		for i := 0; i < nreq; i++ {
			method := rapid.SampledFrom([]string{"POST", "POST", "POST", "POST", "POST", "GET", "HEAD", "PUT", "DELETE", "PATCH", "OPTIONS",
				// method tokens are case-sensitive: these are not POST
				"post", "Post", "pOST", "POSt", "POSTS", "POS", "XPOST", "CONNECT", "TRACE", "PROPFIND"}).Draw(t, "method")
			path := rapid.SampledFrom([]string{"/upload/2024-01-01", "/upload/", "/upload/x/y", "/upload/2024-01-01/0.5.json", "/upload/..%2f..%2fx"}).Draw(t, "path")
			rep := vgen.ApprovedReport(t, ucfg)
			class := rapid.SampledFrom([]string{"valid", "valid", "valid", "mutated", "mutated", "mutated", "bytes", "truncated", "wrongtype", "trailing-garbage", "padded-over-limit", "too-big", "null-program", "null", "huge-x", "just-below-limit", "same-name-again"}).Draw(t, "class")
			if class == "same-name-again" && lastStored == nil {
				class = "valid"
			}
			var body []byte
			verdict := "" // "store", "reject", "" (no verdict on storing; still no 5xx, nothing outside the bucket)
			detail := ""
			switch class {
			case "same-name-again":
				// another valid report with the Week and X of one stored earlier (a retry after a lost answer, with
				// fewer or more programs): the object of that name now holds this report
				rep.Week, rep.X = lastStored.Week, lastStored.X
				if rapid.Bool().Draw(t, "shorter") {
					rep.Programs = nil
				}
				body, _ = json.Marshal(rep)
				verdict = "store"
			case "valid":
				body, _ = json.Marshal(rep)
				verdict = "store"
			case "mutated":
				detail = vgen.MutateReport(t, ucfg, rep)
				body, _ = json.Marshal(rep)
				if ok, _ := vmodel.ReportValid(ucfg, rep); ok {
					verdict = "store" // the drawn mutation did not apply
				} else {
					verdict = "reject"
				}
			case "bytes":
				body = rapid.SliceOfN(rapid.Byte(), 0, 64).Draw(t, "bytes")
				var probe telemetry.Report
				if json.Unmarshal(body, &probe) == nil {
					verdict = "" // accidentally JSON; leave it to the no-5xx clause
				} else {
					verdict = "reject"
				}
			case "truncated":
				body, _ = json.Marshal(rep)
				body = body[:rapid.IntRange(0, len(body)-1).Draw(t, "cut")]
				verdict = "reject"
			case "wrongtype":
				body = []byte(rapid.SampledFrom([]string{`[]`, `"x"`, `7`, `{"Week":5}`, `{"X":"0.5"}`, `{"Programs":{}}`, `{"Programs":[{"Counters":{"a":"b"}}]}`, `{"Programs":[{"Counters":{"a":1.5}}]}`, `true`}).Draw(t, "wrong"))
				verdict = "reject"
			case "null":
				body = []byte("null")
				verdict = "reject" // decodes to the zero report: no week
			case "null-program":
				body, _ = json.Marshal(rep)
				body = bytes.Replace(body, []byte(`"Programs":null`), []byte(`"Programs":[null]`), 1)
				if !bytes.Contains(body, []byte("[null]")) {
					body = bytes.Replace(body, []byte(`"Programs":[`), []byte(`"Programs":[null,`), 1)
				}
				verdict = "reject"
			case "huge-x":
				body, _ = json.Marshal(rep)
				body = bytes.Replace(body, []byte(`"X":`), []byte(`"X":1e400,"Xold":`), 1)
				verdict = "reject"
			case "trailing-garbage":
				body, _ = json.Marshal(rep)
				body = append(body, []byte(rapid.SampledFrom([]string{"garbage", "{}", "\n{\"Week\":\"x\"}", "]"}).Draw(t, "garbage"))...)
				verdict = "" // whether that "is a JSON report" is not settled by the statement
			case "padded-over-limit":
				body, _ = json.Marshal(rep)
				if int64(len(body)) >= maxBytes {
					verdict = "reject"
				} else {
					pad := int(maxBytes) - len(body) + rapid.IntRange(1, 3000).Draw(t, "padOver")
					body = append(body, bytes.Repeat([]byte(" "), pad)...)
					verdict = "reject" // a JSON document over the size limit
				}
			case "too-big":
				big := *rep
				big.LastWeek = strings.Repeat("9", int(maxBytes)+rapid.IntRange(0, 500).Draw(t, "extra"))
				body, _ = json.Marshal(&big)
				verdict = "reject"
			case "just-below-limit":
				body, _ = json.Marshal(rep)
				if int64(len(body)) < maxBytes {
					body = append(body, bytes.Repeat([]byte("\n"), int(maxBytes)-len(body))...)
					verdict = "store"
				} else {
					verdict = "reject"
				}
			}
			if int64(len(body)) > maxBytes && verdict == "store" {
				verdict = "reject"
			}
			if method != "POST" {
				verdict = "reject"
			}
			var probe telemetry.Report
			if json.Unmarshal(bytes.TrimRight(body, " \n"), &probe) == nil && method == "POST" {
				wellTyped = true
			}
			before := vsnap.Take(env.root)
			unknownLength := rapid.IntRange(0, 3).Draw(t, "unknownLength") == 0
			rec := c12Do(env.handler, method, path, body, unknownLength)
			after := vsnap.Take(env.root)
			diff := vsnap.Diff(before, after, nil)
			desc := fmt.Sprintf("%s %s chunked=%v class=%s%s len=%d limit=%d -> %d", method, path, unknownLength, class, map[bool]string{true: "(" + detail + ")", false: ""}[detail != ""], len(body), maxBytes, rec.Code)
			descs = append(descs, desc)
			vstats.Label("class:" + class)
			if rec.Code >= 500 {
				t.Fatalf("%s: 5xx answer (%s)\nbody: %.300q", desc, strings.TrimSpace(rec.Body.String()), body)
			}
			for _, d := range diff {
				p := strings.Fields(d)[1]
				if !strings.HasPrefix(p, "storage/uploaded") {
					t.Fatalf("%s: wrote outside the upload bucket: %v", desc, diff)
				}
			}
			switch verdict {
			case "store":
				want := fmt.Sprintf("storage/uploaded/%s/%g.json", rep.Week, rep.X)
				if rec.Code != 200 {
					t.Fatalf("%s: valid report refused with %d (%s)\nbody: %.300q", desc, rec.Code, strings.TrimSpace(rec.Body.String()), body)
				}
				for _, d := range diff {
					p := strings.Fields(d)[1]
					if p != want && p != filepath.Dir(want) {
						t.Fatalf("%s: unexpected change %q (object should be %s)", desc, d, want)
					}
				}
				data, err := os.ReadFile(filepath.Join(env.root, want))
				if err != nil {
					t.Fatalf("%s: object %s not stored: %v", desc, want, err)
				}
				var got telemetry.Report
				if err := json.Unmarshal(data, &got); err != nil {
					t.Fatalf("%s: stored object is not JSON: %v", desc, err)
				}
				var sent telemetry.Report
				json.Unmarshal(bytes.TrimRight(body, " \n"), &sent)
				if !reflect.DeepEqual(got, sent) {
					t.Fatalf("%s: stored object decodes to a different report:\n got  %+v\n sent %+v", desc, got, sent)
				}
				lastStored = &sent
			case "reject":
				if rec.Code < 400 || rec.Code > 499 {
					t.Fatalf("%s: want a 4xx answer (%s)\nbody: %.300q", desc, strings.TrimSpace(rec.Body.String()), body)
				}
				if len(diff) > 0 {
					t.Fatalf("%s: request was refused but storage changed: %v", desc, diff)
				}
			}
		}
		vstats.Case(strings.Join(descs, " ; "), wellTyped, fmt.Sprintf("wellTyped:%v", wellTyped))
	})
}
