package main

// C13 — Merging and charting count every stored report exactly once.
//
// Identifiers of the package under test this harness relies on:
//   handleMerge, handleChart, group, charts, chartdata/program/chart/datum.

import (
	"bytes"
	"context"
	"encoding/json"
	"fmt"
	"math"
	"math/rand"
	"net/http/httptest"
	"os"
	"path/filepath"
	"regexp"
	"sort"
	"strconv"
	"strings"
	"testing"
	"time"

	"golang.org/x/telemetry/godev/internal/config"
	"golang.org/x/telemetry/godev/internal/storage"
	tconfig "golang.org/x/telemetry/internal/config"
	"golang.org/x/telemetry/internal/telemetry"
	"golang.org/x/telemetry/internal/verif/vgen"
	"golang.org/x/telemetry/internal/verif/vmodel"
	"golang.org/x/telemetry/internal/verif/vstats"
	"pgregory.net/rapid"
)

var c13Seq int

var c13GoMM = regexp.MustCompile(`^go([1-9][0-9]*|0)\.([1-9][0-9]*|0)`)

// c13Norm is the documented Go-version normalisation of the GoVersion chart: go1.2.3 -> go1.2.
func c13Norm(v string) string {
	m := c13GoMM.FindStringSubmatch(v)
	if m == nil {
		return ""
	}
	return "go" + m[1] + "." + m[2]
}

type c13Key struct{ prog, chart, key string }

// c13Model counts distinct X per (program, chart, key) over the reports, the way the statement says.
func c13Model(cfg *telemetry.UploadConfig, reports []telemetry.Report) map[c13Key]map[float64]bool {
	out := map[c13Key]map[float64]bool{}
	add := func(k c13Key, x float64) {
		if out[k] == nil {
			out[k] = map[float64]bool{}
		}
		out[k][x] = true
	}
	in := func(list []string, s string) bool {
		for _, x := range list {
			if x == s {
				return true
			}
		}
		return false
	}
	for _, r := range reports {
		for _, p := range r.Programs {
			var pc *telemetry.ProgramConfig
			for _, c := range cfg.Programs {
				if c.Name == p.Program {
					pc = c
				}
			}
			if pc == nil {
				continue
			}
			if !strings.HasPrefix(pc.Name, "cmd/") && in(pc.Versions, p.Version) {
				add(c13Key{pc.Name, "Version", p.Version}, r.X)
			}
			if in(cfg.GOOS, p.GOOS) {
				add(c13Key{pc.Name, "GOOS", p.GOOS}, r.X)
			}
			if in(cfg.GOARCH, p.GOARCH) {
				add(c13Key{pc.Name, "GOARCH", p.GOARCH}, r.X)
			}
			if in(cfg.GoVersion, p.GoVersion) {
				add(c13Key{pc.Name, "GoVersion", c13Norm(p.GoVersion)}, r.X)
			}
			for _, c := range pc.Counters {
				chart, _, _ := strings.Cut(c.Name, ":")
				for _, e := range vmodel.ExpandBuckets(c.Name) {
					if _, ok := p.Counters[e]; ok {
						_, bucket, found := strings.Cut(e, ":")
						if !found {
							bucket = e
						}
						add(c13Key{pc.Name, chart, bucket}, r.X)
					}
				}
			}
		}
	}
	return out
}

func c13Report(t *rapid.T, cfg *telemetry.UploadConfig, week string, xs []float64) telemetry.Report {
	r := vgen.ApprovedReport(t, cfg)
	r.Week = week
	// duplicate X within and across days are frequent
	if len(xs) > 0 && rapid.IntRange(0, 2).Draw(t, "dupX") == 0 {
		r.X = xs[rapid.IntRange(0, len(xs)-1).Draw(t, "dupIdx")]
		// ... or a neighbour of an earlier X: a different report ID that differs only in the last bits
		switch rapid.IntRange(0, 5).Draw(t, "nearX") {
		case 0:
			r.X = math.Nextafter(r.X, 2)
		case 1:
			r.X += 1e-9
		}
	} else {
		r.X = rapid.OneOf(rapid.Float64Range(0.001, 1), rapid.SampledFrom([]float64{0.5, 0.25, 1})).Draw(t, "x")
	}
	// sometimes unlisted items (the worker does not validate; the model ignores them)
	if len(r.Programs) > 0 && rapid.IntRange(0, 5).Draw(t, "odd") == 0 {
		p := r.Programs[0]
		switch rapid.IntRange(0, 2).Draw(t, "oddKind") {
		case 0:
			p.GOOS = "plan9"
		case 1:
			p.Counters["unlisted:thing"] = 3
		case 2:
			p.Program = "example.com/unlisted"
		}
	}
	switch rapid.SampledFrom([]string{"small", "small", "small", "small", "10k", "70k", "100k", "exact"}).Draw(t, "size") {
	case "exact":
		// the merged line (the report's JSON and a newline) has exactly a round length, or one next to it:
		// where a reader that works in blocks has its boundaries
		round := rapid.OneOf(rapid.SampledFrom([]int{4096, 8192, 16384, 32768, 65536, 98304, 100 << 10}),
			rapid.Map(rapid.IntRange(1, 25), func(k int) int { return k * 4096 })).Draw(t, "roundSize")
		c13PadExact(r, round+rapid.SampledFrom([]int{0, 0, -1, 1, 2}).Draw(t, "sizeDelta"))
	case "10k":
		c13Pad(r, 10*1024)
	case "70k":
		c13Pad(r, 70*1024)
	case "100k":
		c13Pad(r, 99*1024)
	}
	return *r
}

// c13PadExact grows the report so that its JSON followed by a newline is exactly n bytes long, by way of
// one counter with a long unlisted name (which the worker and the model both ignore).
func c13PadExact(r *telemetry.Report, n int) {
	if len(r.Programs) == 0 {
		r.Programs = append(r.Programs, &telemetry.ProgramReport{Program: "example.com/pad", Counters: map[string]int64{}, Stacks: map[string]int64{}})
	}
	p := r.Programs[0]
	if p.Counters == nil {
		p.Counters = map[string]int64{}
	}
	size := func() int { b, _ := json.Marshal(r); return len(b) + 1 }
	k := 0
	for i := 0; i < 4; i++ {
		p.Counters["padding:"+strings.Repeat("x", k)] = 1
		d := n - size()
		if d == 0 {
			vstats.Label("exactLineLength")
			return
		}
		delete(p.Counters, "padding:"+strings.Repeat("x", k))
		if k+d < 0 {
			return // the report is already longer
		}
		k += d
	}
}

// c13Pad grows the report's JSON to about n bytes with stack entries.
func c13Pad(r *telemetry.Report, n int) {
	if len(r.Programs) == 0 {
		r.Programs = append(r.Programs, &telemetry.ProgramReport{Program: "example.com/pad", Counters: map[string]int64{}, Stacks: map[string]int64{}})
	}
	p := r.Programs[0]
	if p.Stacks == nil {
		p.Stacks = map[string]int64{}
	}
	for i := 0; i*3000 < n; i++ {
		p.Stacks[fmt.Sprintf("crash/crash\nmain.f%d:+1,+0x2\n%s", i, strings.Repeat("runtime.main:+10,+0x100\n", 120))] = 1
	}
}

type c13Env struct {
	root string
	api  *storage.API
	tcfg *tconfig.Config
}

func c13NewEnv(t *rapid.T, base string, ucfg *telemetry.UploadConfig) *c13Env {
	c13Seq++
	root := filepath.Join(base, strconv.Itoa(c13Seq))
	os.MkdirAll(root, 0777)
	cfg := &config.Config{LocalStorage: root, UploadBucket: "uploaded", MergedBucket: "merged", ChartDataBucket: "charted"}
	api, err := storage.NewAPI(context.Background(), cfg)
	if err != nil {
		t.Fatal(err)
	}
	return &c13Env{root: root, api: api, tcfg: tconfig.NewConfig(ucfg)}
}

func TestVerifC13MergeChart(t *testing.T) {
	defer vstats.Flush()
	base := t.TempDir()
	rapid.Check(t, func(t *rapid.T) {
		ucfg := vgen.UploadConfig(t)
		env := c13NewEnv(t, base, ucfg)
		defer os.RemoveAll(env.root)
		ctx := context.Background()
		ndays := rapid.IntRange(1, 8).Draw(t, "ndays")
		longRange := rapid.IntRange(0, 39).Draw(t, "longRange") == 0
		if longRange {
			ndays = rapid.IntRange(360, 372).Draw(t, "ndaysLong") // a range of about a year, mostly empty days
		}
		day0 := time.Date(2024, 1, 1, 0, 0, 0, 0, time.UTC).AddDate(0, 0, rapid.IntRange(0, 700).Draw(t, "day0"))
		if rapid.IntRange(0, 3).Draw(t, "nearBoundary") == 0 {
			// ranges that straddle a year end, a leap day or a month end
			anchor := rapid.SampledFrom([]time.Time{
				time.Date(2025, 1, 1, 0, 0, 0, 0, time.UTC), time.Date(2024, 1, 1, 0, 0, 0, 0, time.UTC), time.Date(2026, 1, 1, 0, 0, 0, 0, time.UTC),
				time.Date(2024, 2, 29, 0, 0, 0, 0, time.UTC), time.Date(2025, 3, 1, 0, 0, 0, 0, time.UTC), time.Date(2024, 11, 1, 0, 0, 0, 0, time.UTC),
			}).Draw(t, "anchor")
			day0 = anchor.AddDate(0, 0, -rapid.IntRange(0, ndays).Draw(t, "beforeAnchor"))
		}
		missing := -1
		if rapid.IntRange(0, 5).Draw(t, "withMissingDay") == 0 {
			missing = rapid.IntRange(0, ndays-1).Draw(t, "missingDay")
		}
		stored := map[string][]telemetry.Report{} // day -> reports stored (one per object)
		var xs []float64
		bigLine, dupX := false, false
		total := 0
		var prevDays []string
		for d := 0; d < ndays; d++ {
			day := day0.AddDate(0, 0, d).Format("2006-01-02")
			if d == missing {
				continue
			}
			if d > 0 {
				prevDays = append(prevDays, day0.AddDate(0, 0, d-1).Format("2006-01-02"))
			}
			n := rapid.SampledFrom([]int{0, 1, 1, 2, 3, 5, 8, 40}).Draw(t, "nreports")
			if longRange && d%37 != 0 {
				n = 0
			}
			seen := map[float64]bool{}
			for i := 0; i < n; i++ {
				r := c13Report(t, ucfg, day, xs)
				if len(prevDays) > 0 && rapid.IntRange(0, 5).Draw(t, "weekOfAnotherDay") == 0 {
					// stored for this day, but naming another day of the range as its week (the worker takes the day
					// from where the report is stored; what the report says about itself is not checked there)
					r.Week = prevDays[rapid.IntRange(0, len(prevDays)-1).Draw(t, "otherDay")]
					vstats.Label("weekFieldOfAnotherDay")
				}
				if seen[r.X] {
					continue // same object name: the later upload would overwrite the earlier one
				}
				seen[r.X] = true
				for _, x := range xs {
					if x == r.X {
						dupX = true
					}
				}
				xs = append(xs, r.X)
				if rapid.IntRange(0, 11).Draw(t, "interruptedUploadFirst") == 0 {
					// an earlier attempt to store this report was interrupted (its writer was never closed);
					// the complete upload that follows is the one stored report
					if w0, err := env.api.Upload.Object(fmt.Sprintf("%s/%g.json", day, r.X)).NewWriter(ctx); err == nil {
						w0.Write([]byte(`{"Week":"`))
					}
					vstats.Label("interruptedUpload")
				}
				w, err := env.api.Upload.Object(fmt.Sprintf("%s/%g.json", day, r.X)).NewWriter(ctx)
				if err != nil {
					t.Fatal(err)
				}
				if err := json.NewEncoder(w).Encode(r); err != nil {
					t.Fatal(err)
				}
				w.Close()
				// what the object decodes to is what must be merged
				var back telemetry.Report
				b, _ := json.Marshal(r)
				json.Unmarshal(b, &back)
				if len(b) > 64*1024 {
					bigLine = true
				}
				stored[day] = append(stored[day], back)
				total++
			}
		}
		// merge every day that is not missing
		mergeAndVerify := func(day string) {
			rec := httptest.NewRecorder()
			handleMerge(env.api).ServeHTTP(rec, httptest.NewRequest("GET", "/merge/?date="+day, nil))
			if rec.Code != 200 {
				t.Fatalf("merge %s: status %d %s", day, rec.Code, rec.Body.String())
			}
			data, err := os.ReadFile(filepath.Join(env.root, "merged", day+".json"))
			if err != nil {
				t.Fatalf("merge %s: %v", day, err)
			}
			lines := bytes.Split(bytes.TrimSuffix(data, []byte("\n")), []byte("\n"))
			if len(data) == 0 {
				lines = nil
			}
			if len(lines) != len(stored[day]) {
				t.Fatalf("merge %s: %d records for %d stored reports", day, len(lines), len(stored[day]))
			}
			var got, want []string
			for _, l := range lines {
				var r telemetry.Report
				if err := json.Unmarshal(l, &r); err != nil {
					t.Fatalf("merge %s: record is not a report: %v", day, err)
				}
				b, _ := json.Marshal(r)
				got = append(got, string(b))
			}
			for _, r := range stored[day] {
				b, _ := json.Marshal(r)
				want = append(want, string(b))
			}
			sort.Strings(got)
			sort.Strings(want)
			for i := range got {
				if got[i] != want[i] {
					t.Fatalf("merge %s: merged records differ from the stored reports", day)
				}
			}
		}
		for d := 0; d < ndays; d++ {
			if d != missing {
				mergeAndVerify(day0.AddDate(0, 0, d).Format("2006-01-02"))
			}
		}
		// The set of reports stored for a day can change between two merges of that day (the merge job runs daily
		// over the last week): a report arrives, a report is uploaded again under the same name with other
		// contents, an object is deleted. Merging again must describe the new set, not a mixture.
		remerged := ""
		if rapid.IntRange(0, 2).Draw(t, "remerge") == 0 {
			var days []string
			for day := range stored {
				if len(stored[day]) > 0 {
					days = append(days, day)
				}
			}
			sort.Strings(days)
			if len(days) > 0 {
				day := days[rapid.IntRange(0, len(days)-1).Draw(t, "remergeDay")]
				i := rapid.IntRange(0, len(stored[day])-1).Draw(t, "remergeReport")
				obj := fmt.Sprintf("%s/%g.json", day, stored[day][i].X)
				switch remerged = rapid.SampledFrom([]string{"smaller", "deleted", "added"}).Draw(t, "remergeKind"); remerged {
				case "smaller":
					small := telemetry.Report{Week: stored[day][i].Week, LastWeek: stored[day][i].LastWeek, X: stored[day][i].X, Config: stored[day][i].Config}
					w, err := env.api.Upload.Object(obj).NewWriter(ctx)
					if err != nil {
						t.Fatal(err)
					}
					json.NewEncoder(w).Encode(small)
					w.Close()
					var back telemetry.Report
					b, _ := json.Marshal(small)
					json.Unmarshal(b, &back)
					stored[day][i] = back
				case "deleted":
					if err := os.Remove(filepath.Join(env.root, "uploaded", obj)); err != nil {
						t.Fatal(err)
					}
					stored[day] = append(stored[day][:i:i], stored[day][i+1:]...)
					total--
				case "added":
					r := c13Report(t, ucfg, day, xs)
					dup := false
					for _, o := range stored[day] {
						if o.X == r.X {
							dup = true
						}
					}
					if !dup {
						w, err := env.api.Upload.Object(fmt.Sprintf("%s/%g.json", day, r.X)).NewWriter(ctx)
						if err != nil {
							t.Fatal(err)
						}
						json.NewEncoder(w).Encode(r)
						w.Close()
						var back telemetry.Report
						b, _ := json.Marshal(r)
						json.Unmarshal(b, &back)
						stored[day] = append(stored[day], back)
						total++
					}
				}
				mergeAndVerify(day)
			}
		}
		// chart a sub-range
		lo := rapid.IntRange(0, ndays-1).Draw(t, "rangeStart")
		hi := rapid.IntRange(lo, ndays-1).Draw(t, "rangeEnd")
		start, end := day0.AddDate(0, 0, lo).Format("2006-01-02"), day0.AddDate(0, 0, hi).Format("2006-01-02")
		url := "/chart/?start=" + start + "&end=" + end
		obj := start + "_" + end + ".json"
		if lo == hi {
			obj = start + ".json"
			if rapid.Bool().Draw(t, "dateForm") {
				url = "/chart/?date=" + start
			}
		}
		rec := httptest.NewRecorder()
		handleChart(env.tcfg, env.api).ServeHTTP(rec, httptest.NewRequest("GET", url, nil))
		desc := fmt.Sprintf("days=%d missing=%d reports=%d range=%s..%s bigLine=%v dupX=%v", ndays, missing, total, start, end, bigLine, dupX)
		chartPath := filepath.Join(env.root, "charted", obj)
		if missing >= lo && missing <= hi {
			if rec.Code != 404 {
				t.Fatalf("%s: a day in the range was never merged, chart status = %d, want 404", desc, rec.Code)
			}
			if _, err := os.Stat(chartPath); err == nil {
				t.Fatalf("%s: chart object written although a day is missing", desc)
			}
			vstats.Case(desc+" -> 404", true, "missing-day")
			return
		}
		if rec.Code != 200 {
			t.Fatalf("%s: chart status %d %s", desc, rec.Code, rec.Body.String())
		}
		out, err := os.ReadFile(chartPath)
		if err != nil {
			t.Fatalf("%s: %v", desc, err)
		}
		verifyChart := func(out []byte, desc string) []telemetry.Report {
			var cd chartdata
			if err := json.Unmarshal(out, &cd); err != nil {
				t.Fatalf("%s: chart object: %v", desc, err)
			}
			var inRange []telemetry.Report
			for d := lo; d <= hi; d++ {
				inRange = append(inRange, stored[day0.AddDate(0, 0, d).Format("2006-01-02")]...)
			}
			if cd.NumReports != len(inRange) {
				t.Fatalf("%s: NumReports = %d, the merged reports in the range number %d", desc, cd.NumReports, len(inRange))
			}
			if cd.DateRange != [2]string{start, end} {
				t.Fatalf("%s: DateRange = %v", desc, cd.DateRange)
			}
			model := c13Model(ucfg, inRange)
			seenKey := map[c13Key]bool{}
			for _, p := range cd.Programs {
				for _, c := range p.Charts {
					if c.Type != "partition" {
						continue
					}
					for _, dt := range c.Data {
						k := c13Key{p.Name, c.Name, dt.Key}
						if seenKey[k] {
							t.Fatalf("%s: chart %s of %s lists key %q twice", desc, c.Name, p.Name, dt.Key)
						}
						seenKey[k] = true
						if want := float64(len(model[k])); dt.Value != want {
							t.Fatalf("%s: program %s chart %s key %q = %v; %v distinct report IDs in the range carry it", desc, p.Name, c.Name, dt.Key, dt.Value, want)
						}
					}
				}
			}
			for k, ids := range model {
				if len(ids) > 0 && !seenKey[k] {
					t.Fatalf("%s: program %s chart %s key %q is carried by %d report IDs but is not charted", desc, k.prog, k.chart, k.key, len(ids))
				}
			}
			return inRange
		}
		inRange := verifyChart(out, desc)
		// determinism: a second run, and permutations of the report slice
		rec2 := httptest.NewRecorder()
		handleChart(env.tcfg, env.api).ServeHTTP(rec2, httptest.NewRequest("GET", url, nil))
		out2, _ := os.ReadFile(chartPath)
		if !bytes.Equal(out, out2) {
			t.Fatalf("%s: two chart runs over the same data differ", desc)
		}
		var xsr []float64
		for _, r := range inRange {
			xsr = append(xsr, r.X)
		}
		ref, _ := json.Marshal(charts(env.tcfg, start, end, group(inRange), xsr))
		rng := rand.New(rand.NewSource(int64(rapid.IntRange(1, 1<<30).Draw(t, "permSeed"))))
		perm := append([]telemetry.Report(nil), inRange...)
		rng.Shuffle(len(perm), func(i, j int) { perm[i], perm[j] = perm[j], perm[i] })
		got, _ := json.Marshal(charts(env.tcfg, start, end, group(perm), xsr))
		if !bytes.Equal(ref, got) {
			t.Fatalf("%s: chart output depends on the order of the reports", desc)
		}
		// The stored reports of a charted day change afterwards (an object is deleted), the day is merged again and
		// the range charted again in the same process: the second chart describes the new set.
		rechart := ""
		if rapid.IntRange(0, 2).Draw(t, "changeAfterChart") == 0 {
			var days []string
			for d := lo; d <= hi; d++ {
				if day := day0.AddDate(0, 0, d).Format("2006-01-02"); len(stored[day]) > 0 {
					days = append(days, day)
				}
			}
			if len(days) > 0 {
				day := days[rapid.IntRange(0, len(days)-1).Draw(t, "rechartDay")]
				i := rapid.IntRange(0, len(stored[day])-1).Draw(t, "rechartReport")
				if err := os.Remove(filepath.Join(env.root, "uploaded", fmt.Sprintf("%s/%g.json", day, stored[day][i].X))); err != nil {
					t.Fatal(err)
				}
				stored[day] = append(stored[day][:i:i], stored[day][i+1:]...)
				mergeAndVerify(day)
				rec3 := httptest.NewRecorder()
				handleChart(env.tcfg, env.api).ServeHTTP(rec3, httptest.NewRequest("GET", url, nil))
				if rec3.Code != 200 {
					t.Fatalf("%s: second chart after a re-merge: status %d %s", desc, rec3.Code, rec3.Body.String())
				}
				out3, err := os.ReadFile(chartPath)
				if err != nil {
					t.Fatal(err)
				}
				verifyChart(out3, desc+" [charted again after "+day+" lost a report and was merged again]")
				rechart = "afterDeletion"
			}
		}
		vstats.Case(desc, dupX || bigLine || hi > lo, "rechart:"+rechart, fmt.Sprintf("bigLine:%v", bigLine), fmt.Sprintf("dupX:%v", dupX), fmt.Sprintf("multiDay:%v", hi > lo),
			fmt.Sprintf("crossYear:%v", start[:4] != end[:4]), fmt.Sprintf("longRange:%v", hi-lo > 300), "remerged:"+remerged)
	})
}
