package crashmonitor

// C14 — Crash reports reach telemetry only as program counters.
//
// Identifiers of the package under test this harness relies on:
//   telemetryCounterName, sentinel, writeSentinel.

import (
	"bytes"
	"encoding/json"
	"fmt"
	"os"
	"os/exec"
	"path/filepath"
	"reflect"
	"runtime"
	"runtime/debug"
	"strconv"
	"strings"
	"testing"

	"golang.org/x/telemetry/internal/counter"
	"golang.org/x/telemetry/internal/verif/vstats"
	"golang.org/x/telemetry/internal/verif/vstk/disp"
	"golang.org/x/telemetry/internal/verif/vstk/long"
	"golang.org/x/telemetry/internal/verif/vstk/uni"
	"pgregory.net/rapid"
)

// ---------- model of a GOTRACEBACK=system crash report ----------

type c14Frame struct {
	sym    string // symbol text before the argument list
	hasPC  bool
	pc     uint64
	relpc  bool
	inline bool // rendered as SYMBOL(...) without pc
}

type c14Goroutine struct {
	id      int
	status  string
	note    string // printed instead of frames (the runtime's remark about a goroutine whose stack it cannot print)
	frames  []c14Frame
	created bool
}

type c14Report struct {
	sentinelLines []string // rendered before the first goroutine ("" list = missing)
	parentSent    uint64
	gs            []c14Goroutine
	odd           bool // some frame carries a symbol text the runtime does not print
}

// decoration holds everything that must not influence the counter name.
type c14Decor struct {
	preamble []string
	args     func(i int) string
	file     func(i int) string
	rename   func(sym string) string // must keep runtime.sigpanic / non-sigpanic status
	gpExtra  string
	trailer  []string
	pcInPath uint64 // if non-zero, file paths contain " pc=0x<this> " (set by the test: a value that relocates into the text segment)
	// strayAfter > 0: one unpaired line (strayText) follows the strayAfter-th frame of the report, so that every later
	// symbol line of that goroutine sits where a location line is expected; argsPC != 0: the argument text of the
	// frames after it ends in " pc=0x<argsPC>" (set by the test; the only thing that differs between two renderings)
	strayAfter int
	strayText  string
	argsPC     uint64
}

func c14Render(r *c14Report, d *c14Decor) string {
	var sb strings.Builder
	for _, l := range d.preamble {
		sb.WriteString(l + "\n")
	}
	for _, l := range r.sentinelLines {
		sb.WriteString(l + "\n")
	}
	n := 0
	for gi, g := range r.gs {
		if gi > 0 || len(d.preamble) > 0 {
			sb.WriteString("\n")
		}
		fmt.Fprintf(&sb, "goroutine %d%s [%s]:\n", g.id, d.gpExtra, g.status)
		if g.note != "" {
			sb.WriteString(g.note + "\n")
		}
		for _, f := range g.frames {
			n++
			sym := d.rename(f.sym)
			if f.inline {
				fmt.Fprintf(&sb, "%s(...)\n\t%s:%d\n", sym, d.file(n), 10+n)
				continue
			}
			args := d.args(n)
			if d.strayAfter > 0 && n > d.strayAfter && d.argsPC != 0 {
				args = fmt.Sprintf("(0x%x, user=%s pc=0x%x", n, d.strayText[:3], d.argsPC)
			}
			fmt.Fprintf(&sb, "%s%s\n\t%s:%d", sym, args, d.file(n), 10+n)
			if f.relpc {
				fmt.Fprintf(&sb, " +0x%x", 16*n+5)
			}
			if f.hasPC {
				fmt.Fprintf(&sb, " fp=0xc0000%02xf88 sp=0xc0000%02xf60 pc=0x%x", n, n, f.pc)
			}
			sb.WriteString("\n")
			if d.strayAfter == n {
				sb.WriteString(d.strayText + "\n")
			}
		}
		if g.created {
			fmt.Fprintf(&sb, "created by %s in goroutine 1\n\t%s:%d +0x%x\n", d.rename("main.spawn"), d.file(99), 77, 0x44)
		}
	}
	if len(d.trailer) > 0 {
		sb.WriteString("\n") // a goroutine block ends with a blank line
	}
	for _, l := range d.trailer {
		sb.WriteString(l + "\n")
	}
	return sb.String()
}

// c14Expected is the statement's reading: PCs of the first running goroutine,
// relocated by the sentinel difference, +1 after a runtime.sigpanic frame.
func c14Expected(r *c14Report) (pcs []uintptr, verdict string) {
	var g *c14Goroutine
	for i := range r.gs {
		if r.gs[i].status == "running" {
			g = &r.gs[i]
			break
		}
	}
	if g == nil {
		return nil, "no-running"
	}
	if len(r.sentinelLines) == 0 {
		return nil, "error"
	}
	prev := ""
	for _, f := range g.frames {
		if f.inline || !f.hasPC {
			continue
		}
		pc := f.pc - r.parentSent + sentinel()
		if prev == "runtime.sigpanic" {
			pc++
		}
		pcs = append(pcs, uintptr(pc))
		prev = f.sym
	}
	if len(pcs) == 0 {
		return nil, "no-running"
	}
	return pcs, "name"
}

var c14Syms = []string{"main.main", "runtime.gopanic", "runtime.panicmem", "runtime.sigpanic", "golang.org/x/tools/gopls/internal/server.(*server).didOpen",
	"example.com/pkg.T[...].Method", "example.com/pkg.(*T[...]).m", "main.(*app).run.func1", "main.run.func2.1", "runtime.main", "runtime.goexit", "a.b/c.F", "runtime.sigpanic",
	// near misses of the one symbol after which the next frame's pc is adjusted
	"runtime.sigpanic0", "runtime.sigpanic.func1", "runtime.sigpanicked", "xruntime.sigpanic", "runtime.sigpani", "runtime.Sigpanic", "vendor/runtime.sigpanic"}

// c14OddSyms are symbol texts the runtime does not print (no package, empty, starting with the argument
// list, non-ASCII). Symbol text is not part of the result, so a report using them must give the model's
// name or be refused with an error; which of the two is not settled by the statement.
var c14OddSyms = []string{"(*T).method", "", "(...)", "x", "main.(", "\xe4\xb8\x96.F", "(", ".", "a.(b"}

func c14RealPCs() []uint64 {
	// PCs of real functions of this executable (so that symbolisation has something to chew on)
	var out []uint64
	disp.Run([]int{0, 5, 7, 8, 3}, 0, func() {
		buf := make([]uintptr, 32)
		n := runtime.Callers(0, buf)
		for _, pc := range buf[:n] {
			out = append(out, uint64(pc))
		}
	})
	return out
}

// c14LongPCs are PCs inside functions whose names have 240 to 290 bytes (one PC per function; three of the
// fifteen names consist of multi-byte characters):
// sixteen such frames exceed the 4096-byte name limit, so the truncation clause is reachable.
var c14LongPCs = func() []uint64 {
	var out []uint64
	chain := make([]int, long.N+uni.N)
	for i := range chain {
		chain[i] = 16 + i // the steps of package long, then those of package uni (names of multi-byte characters)
	}
	disp.Run(chain, 0, func() {
		buf := make([]uintptr, 64)
		n := runtime.Callers(0, buf)
		frs := runtime.CallersFrames(buf[:n])
		for {
			fr, more := frs.Next()
			if strings.Contains(fr.Function, "/vstk/long.Function_") || strings.Contains(fr.Function, "/vstk/uni.") {
				out = append(out, uint64(fr.PC))
			}
			if !more {
				break
			}
		}
	})
	return out
}()

func c14GenReport(t *rapid.T, real []uint64) *c14Report {
	r := &c14Report{parentSent: sentinel()}
	if rapid.Bool().Draw(t, "relocated") {
		r.parentSent = sentinel() + uint64(rapid.IntRange(-0x100000, 0x100000).Draw(t, "shift"))*0x1000
	}
	switch rapid.IntRange(0, 9).Draw(t, "sentinelKind") {
	case 0:
		// missing
	case 1:
		r.sentinelLines = []string{fmt.Sprintf("sentinel %x", r.parentSent), fmt.Sprintf("sentinel %x", r.parentSent+0x5000)} // repeated: the first wins
	default:
		r.sentinelLines = []string{fmt.Sprintf("sentinel %x", r.parentSent)}
	}
	ng := rapid.IntRange(1, 4).Draw(t, "ngoroutines")
	longNames := len(c14LongPCs) > 0 && rapid.IntRange(0, 3).Draw(t, "longNames") == 0
	running := rapid.IntRange(0, ng-1).Draw(t, "runningIdx")
	forceRunning := false // the goroutines after the first running one are running too
	for i := 0; i < ng; i++ {
		g := c14Goroutine{id: i + 1, status: rapid.SampledFrom([]string{"select", "chan receive", "force gc (idle)", "IO wait", "sleep", "runnable", "syscall"}).Draw(t, "status")}
		if i == running || (i > running && (forceRunning || rapid.IntRange(0, 3).Draw(t, "alsoRunning") == 0)) {
			g.status = "running"
		}
		if i == running && rapid.IntRange(0, 12).Draw(t, "noneRunning") == 0 {
			g.status = "runnable"
		}
		nf := rapid.OneOf(rapid.IntRange(0, 6), rapid.IntRange(0, 6), rapid.IntRange(14, 30)).Draw(t, "nframes")
		if longNames {
			nf = rapid.IntRange(15, 24).Draw(t, "nframesLong")
		}
		if i == running && g.status == "running" && i < ng-1 && rapid.IntRange(0, 7).Draw(t, "stackUnavailable") == 0 {
			// The first running goroutine runs on another thread and the runtime prints a remark instead of its
			// stack; a later goroutine is running too and has frames. The first running goroutine has no PCs:
			// the report names no crash site (or is refused) - the other goroutine's frames are not the crash.
			g.note = rapid.SampledFrom([]string{"\tgoroutine running on other thread; stack unavailable", "\tgoroutine running on other thread; stack unavailable",
				"\tgoroutine in C code; stack unavailable", "\tstack unavailable"}).Draw(t, "unavailableNote")
			nf = 0
			forceRunning = true
			vstats.Label("firstRunningStackUnavailable")
		}
		for j := 0; j < nf; j++ {
			f := c14Frame{sym: rapid.SampledFrom(c14Syms).Draw(t, "sym"), hasPC: true, relpc: rapid.IntRange(0, 4).Draw(t, "relpc") != 0}
			if rapid.IntRange(0, 19).Draw(t, "oddSym") == 0 {
				f.sym = rapid.SampledFrom(c14OddSyms).Draw(t, "oddSymText")
				r.odd = true
			}
			switch rapid.IntRange(0, 9).Draw(t, "pcKind") {
			case 0:
				f.inline = true
				f.hasPC = false
			case 1:
				f.hasPC = false
			case 2:
				f.pc = rapid.SampledFrom([]uint64{0, 1, 0xffffffffffffffff, 0x7fffffffffffffff, 0x8000000000000000}).Draw(t, "hugePC")
			case 3:
				f.pc = rapid.Uint64().Draw(t, "anyPC")
			default:
				f.pc = real[rapid.IntRange(0, len(real)-1).Draw(t, "realPC")] - sentinel() + r.parentSent
			}
			if longNames && f.hasPC && rapid.IntRange(0, 15).Draw(t, "longPC") != 0 {
				f.pc = c14LongPCs[rapid.IntRange(0, len(c14LongPCs)-1).Draw(t, "whichLong")] - sentinel() + r.parentSent
			}
			g.frames = append(g.frames, f)
		}
		g.created = rapid.Bool().Draw(t, "created")
		r.gs = append(r.gs, g)
	}
	return r
}

func c14GenDecor(t *rapid.T, label string) *c14Decor {
	msgs := []string{"panic: runtime error: invalid memory address or nil pointer dereference", "panic: SECRET-" + label + " user data: /home/alice/.ssh/id_rsa",
		"[signal SIGSEGV: segmentation violation code=0x1 addr=0x0 pc=0x46a1a8]", "fatal error: all goroutines are asleep - deadlock!", "panic: " + strings.Repeat("x", 300),
		"\tpanic: main.T{password:\"hunter2\"} [recovered]", "rax    0x0", "rip    0x46a1a8"}
	d := &c14Decor{}
	for i, n := 0, rapid.IntRange(0, 4).Draw(t, label+"npre"); i < n; i++ {
		d.preamble = append(d.preamble, rapid.SampledFrom(msgs).Draw(t, label+"pre"))
	}
	if rapid.IntRange(0, 2).Draw(t, label+"multilineMessage") == 0 {
		// A multi-line panic message: the runtime prints every continuation line indented by a tab,
		// so text that looks like a sentinel, a goroutine header or a frame can occur there and
		// must not be taken for the real thing.
		d.preamble = append(d.preamble, "panic: "+label+" wrapped error:",
			"\tsentinel 1234",
			"\tgoroutine 99 [running]:",
			"\tmain.fromTheMessage(0x1, 0x2)",
			"\t\t/home/alice/msg.go:1 +0x1 fp=0xc000000001 sp=0xc000000000 pc=0x"+fmt.Sprintf("%x", 0x400000+rapid.IntRange(0, 0xffff).Draw(t, label+"msgPC")),
			"\t")
	}
	if rapid.IntRange(0, 19).Draw(t, label+"hugeMessage") == 0 {
		// a panic value printed on one very long line (longer than the usual I/O buffer sizes)
		d.preamble = append(d.preamble, "panic: "+strings.Repeat("big value ", rapid.SampledFrom([]int{410, 6553, 6554, 7000, 30000}).Draw(t, label+"hugeWords")))
	}
	argStyle := rapid.IntRange(0, 5).Draw(t, label+"argStyle")
	hugeArgs := rapid.IntRange(0, 29).Draw(t, label+"hugeArgs") == 0
	d.args = func(i int) string {
		if hugeArgs && i == 2 {
			return "(" + strings.Repeat("0x1, ", 14000) + "...)"
		}
		switch argStyle {
		case 0:
			return "()"
		case 1:
			return fmt.Sprintf("(0x%x, {0x%x?, 0x1}, 0xc000%04x)", i, i*7, i)
		case 2:
			return "({0xc000012345, 0x1d}, (0x1, 0x2), \"" + label + "\")"
		case 4:
			// the runtime's rendering of elided arguments (it uses it for inlined calls, whose location
			// lines carry no pc; here the location line does, and the frame counts like any other)
			return "(...)"
		case 5:
			// argument text that merely ends like that, on some frames only
			if i%2 == 1 {
				return []string{"(0x0, (...)", "(0x1, " + label + "(...)", "(...)"}[i/2%3]
			}
			return fmt.Sprintf("(0x%x, ...)", i)
		}
		return fmt.Sprintf("(0x%x?)", i)
	}
	root := rapid.SampledFrom([]string{"/home/alice/secret-project", "/usr/lib/go/src", "C:/Users/bob/go/src", "/tmp/" + label, "/home/alice/pc=0x10/src"}).Draw(t, label+"root")
	d.file = func(i int) string {
		if d.pcInPath != 0 {
			// a directory whose name reads like a field of the location line
			return fmt.Sprintf("%s/my pc=0x%x notes/pkg%d/file%d.go", root, d.pcInPath, i%3, i)
		}
		return fmt.Sprintf("%s/pkg%d/file%d.go", root, i%3, i)
	}
	ren := rapid.Bool().Draw(t, label+"rename")
	d.rename = func(s string) string {
		if !ren || s == "runtime.sigpanic" {
			return s
		}
		return "renamed/" + label + "." + strings.NewReplacer("/", "_", "(", "(", ")", ")").Replace(s[strings.LastIndex(s, "/")+1:])
	}
	if rapid.Bool().Draw(t, label+"gp") {
		d.gpExtra = " gp=0xc000002380 m=0 mp=0x5fa960"
	}
	for i, n := 0, rapid.IntRange(0, 2).Draw(t, label+"ntrail"); i < n; i++ {
		d.trailer = append(d.trailer, rapid.SampledFrom(msgs).Draw(t, label+"trail"))
	}
	return d
}

func c14Name(t *rapid.T, text string) (name string, err error) {
	defer func() {
		if p := recover(); p != nil {
			t.Fatalf("telemetryCounterName panicked: %v\n%s\ninput:\n%s", p, debug.Stack(), text)
		}
	}()
	return telemetryCounterName([]byte(text))
}

func c14CheckShape(t *rapid.T, name string, err error, text string) {
	if err != nil {
		return
	}
	if name == "crash/no-running-goroutine" {
		return
	}
	if !strings.HasPrefix(name, "crash/crash\n") {
		t.Fatalf("counter name %q is neither an error, a fixed name, nor crash/crash + frames\ninput:\n%s", name, text)
	}
	if len(name) > 4096 {
		t.Fatalf("counter name has %d bytes\ninput:\n%s", len(name), text)
	}
}

// TestVerifC14Structured: rendered tracebacks with a model of the expected PCs,
// and the metamorphic relation "changing anything but sentinel/PCs/sigpanic
// adjacency leaves the name unchanged or yields an error".
func TestVerifC14Structured(t *testing.T) {
	defer vstats.Flush()
	real := c14RealPCs()
	rapid.Check(t, func(t *rapid.T) {
		r := c14GenReport(t, real)
		d1, d2 := c14GenDecor(t, "A"), c14GenDecor(t, "B")
		if rapid.IntRange(0, 5).Draw(t, "pcLikePath") == 0 {
			// both renderings carry a path element " pc=0x... " whose number, relocated like a real pc, falls into
			// this executable's text; the two numbers differ, the name must not
			d1.pcInPath = real[rapid.IntRange(0, len(real)-1).Draw(t, "pathPC1")] - sentinel() + r.parentSent
			d2.pcInPath = real[rapid.IntRange(0, len(real)-1).Draw(t, "pathPC2")] - sentinel() + r.parentSent + 1
			vstats.Label("pcLikePathElement")
		}
		stray := false
		if rapid.IntRange(0, 7).Draw(t, "strayLine") == 0 {
			// odd line pairing: the same unpaired line in both renderings, after the same frame; what differs is
			// argument text that happens to end like a location line. Only the metamorphic clause applies.
			stray = true
			d1.strayAfter = rapid.IntRange(1, 6).Draw(t, "strayAfter")
			d1.strayText = rapid.SampledFrom([]string{"runtime: unexpected return pc", "\t...additional frames elided", "fatal: morestack on g0", "abc", "created by nobody"}).Draw(t, "strayText")
			d2.strayAfter, d2.strayText = d1.strayAfter, d1.strayText
			d1.argsPC = real[rapid.IntRange(0, len(real)-1).Draw(t, "argsPC1")] - sentinel() + r.parentSent
			d2.argsPC = real[rapid.IntRange(0, len(real)-1).Draw(t, "argsPC2")] - sentinel() + r.parentSent + 1
			vstats.Label("strayLine")
		}
		text1, text2 := c14Render(r, d1), c14Render(r, d2)
		n1, e1 := c14Name(t, text1)
		n2, e2 := c14Name(t, text2)
		c14CheckShape(t, n1, e1, text1)
		c14CheckShape(t, n2, e2, text2)
		pcs, verdict := c14Expected(r)
		if stray {
			verdict = "metamorphic-only"
		}
		if len(pcs) > 16 {
			pcs = pcs[:16]
		}
		check := func(n string, e error, text string) {
			switch verdict {
			case "error":
				if e == nil {
					t.Fatalf("report without sentinel gave %q, want an error\ninput:\n%s", n, text)
				}
			case "no-running":
				if e == nil && n != "crash/no-running-goroutine" {
					t.Fatalf("report without a running goroutine (or without PCs) gave %q\ninput:\n%s", n, text)
				}
			case "name":
				want := counter.EncodeStack(pcs, "crash/crash")
				if e != nil && r.odd {
					return // refused because of an unusual symbol text: allowed
				}
				if e != nil {
					t.Fatalf("well-formed report rejected: %v\ninput:\n%s", e, text)
				}
				if n != want {
					t.Fatalf("counter name differs from the name of the model's PCs %x:\n got  %q\n want %q\ninput:\n%s", pcs, n, want, text)
				}
			}
		}
		check(n1, e1, text1)
		check(n2, e2, text2)
		// metamorphic: same name, or an error
		if e1 == nil && e2 == nil && n1 != n2 {
			t.Fatalf("two renderings of the same PCs with different messages/arguments/paths/symbols give different names:\n%q\n%q", n1, n2)
		}
		for _, n := range []string{n1, n2} {
			for _, leak := range []string{"SECRET", "alice", "hunter2", "renamed/", "bob"} {
				if strings.Contains(n, leak) {
					t.Fatalf("text from the crash report (%q) reached the counter name %q", leak, n)
				}
			}
		}
		differ := text1 != text2
		vstats.Case(text1, verdict == "name" && differ, "verdict:"+verdict, fmt.Sprintf("pcs:%d", min(len(pcs), 16)), fmt.Sprintf("oddSymbol:%v", r.odd),
			fmt.Sprintf("truncatedName:%v", strings.HasSuffix(n1, "\ntruncated\n")), fmt.Sprintf("nameWithin12OfLimit:%v", len(n1) > 4096-12), fmt.Sprintf("longPCsAvailable:%d", len(c14LongPCs)))
	})
}

// TestVerifC14Bytes: arbitrary and damaged text.
func TestVerifC14Bytes(t *testing.T) {
	defer vstats.Flush()
	rapid.Check(t, c14BytesProp(c14RealPCs()))
}

// FuzzVerifC14Bytes runs the same property under Go's coverage-guided fuzzer
// (thorough tier): the fuzzer's bytes are the source of rapid's draws.
func FuzzVerifC14Bytes(f *testing.F) {
	defer vstats.Flush()
	f.Fuzz(rapid.MakeFuzz(c14BytesProp(c14RealPCs())))
}

func c14BytesProp(real []uint64) func(t *rapid.T) {
	return func(t *rapid.T) {
		var text string
		if rapid.Bool().Draw(t, "damaged") {
			text = c14Render(c14GenReport(t, real), c14GenDecor(t, "A"))
			for i, k := 0, rapid.IntRange(1, 5).Draw(t, "nedits"); i < k && len(text) > 0; i++ {
				pos := rapid.IntRange(0, len(text)-1).Draw(t, "pos")
				switch rapid.IntRange(0, 3).Draw(t, "edit") {
				case 0: // drop a line (odd pairing)
					if j := strings.IndexByte(text[pos:], '\n'); j >= 0 {
						text = text[:pos] + text[pos+j+1:]
					}
				case 1:
					text = text[:pos] + rapid.SampledFrom([]string{"\n", "(", ".(", " pc=", " pc=0xzz", "sentinel ", "\nsentinel zz\n", "\ngoroutine 9 [running]:\n", "created by ", "\x00"}).Draw(t, "ins") + text[pos:]
				case 2:
					text = text[:pos]
				default:
					text = text[:pos] + text[pos+1:]
				}
			}
		} else {
			text = rapid.StringOf(rapid.RuneFrom([]rune("sentilgoru [n]:\n\t(.)pc=0x19af "))).Draw(t, "text")
		}
		name, err := c14Name(t, text)
		c14CheckShape(t, name, err, text)
		vstats.Case(text, err == nil && strings.HasPrefix(name, "crash/crash\n"), fmt.Sprintf("err:%v", err != nil))
	}
}

// ---------- real crashes ----------

func init() {
	if spec := os.Getenv("VERIF_C14_CHILD"); spec != "" {
		c14Child(spec)
	}
}

type c14Spec struct {
	Chain []int
	Kind  string
}

//go:noinline
func c14Crash(kind string, p *int, a []int, idx int) int {
	_, _, line0, _ := runtime.Caller(0)
	switch kind {
	case "nil":
		fmt.Fprintf(os.Stderr, "FAULTLINE %d\n", line0+4)
		return *p // line0+4
	case "index":
		fmt.Fprintf(os.Stderr, "FAULTLINE %d\n", line0+7)
		return a[idx] // line0+7
	}
	fmt.Fprintf(os.Stderr, "FAULTLINE %d\n", line0+10)
	panic("boom: SECRET user data") // line0+10
}

func c14Child(spec string) {
	var s c14Spec
	if err := json.Unmarshal([]byte(spec), &s); err != nil {
		os.Exit(3)
	}
	// what Parent does, with stderr as the pipe
	writeSentinel(os.Stderr)
	debug.SetTraceback("system")
	disp.Run(s.Chain, 0, func() {
		c14Crash(s.Kind, nil, nil, 3)
	})
	os.Exit(4) // not reached
}

func c14VstkFrames(frames []string) []string {
	var out []string
	for _, f := range frames {
		if strings.Contains(f, "/verif/vstk/") {
			out = append(out, f)
		}
	}
	return out
}

func TestVerifC14RealCrashes(t *testing.T) {
	defer vstats.Flush()
	exe, err := os.Executable()
	if err != nil {
		t.Fatal(err)
	}
	rapid.Check(t, func(t *rapid.T) {
		n := rapid.OneOf(rapid.IntRange(0, 3), rapid.IntRange(0, 8), rapid.IntRange(30, 60)).Draw(t, "chainLen")
		chain := make([]int, n)
		for i := range chain {
			chain[i] = rapid.IntRange(0, disp.NumSteps-1).Draw(t, "step")
		}
		kind := rapid.SampledFrom([]string{"panic", "nil", "index"}).Draw(t, "kind")
		spec, _ := json.Marshal(c14Spec{chain, kind})
		cmd := exec.Command(exe)
		cmd.Env = append(os.Environ(), "VERIF_C14_CHILD="+string(spec), "GOTRACEBACK=system", "VERIF_STATS=")
		var stderr bytes.Buffer
		cmd.Stderr = &stderr
		err := cmd.Run()
		if err == nil {
			t.Fatalf("child did not crash")
		}
		out := stderr.String()
		name, nerr := c14Name(t, out)
		if nerr != nil {
			t.Fatalf("genuine traceback rejected: %v\n%s", nerr, out)
		}
		c14CheckShape(t, name, nerr, out)
		lines := strings.Split(counter.DecodeStack(name), "\n")[1:]
		// harness ground truth: the same chain walked in this process
		var want []string
		disp.Run(chain, 0, func() {
			buf := make([]uintptr, 400)
			pcs := buf[:runtime.Callers(1, buf)]
			frs := runtime.CallersFrames(pcs)
			for {
				fr, more := frs.Next()
				if fr.Func != nil {
					_, entry := fr.Func.FileLine(fr.Entry)
					want = append(want, fmt.Sprintf("%s:%+d,+0x%x", fr.Function, fr.Line-entry, fr.PC-fr.Entry))
				} else {
					want = append(want, fmt.Sprintf("%s:=%d,+0x%x", fr.Function, fr.Line, fr.PC-fr.Entry))
				}
				if !more {
					break
				}
			}
		})
		gotChain, wantChain := c14VstkFrames(lines), c14VstkFrames(want)
		if len(gotChain) > len(wantChain) {
			t.Fatalf("crash name lists %d helper frames, the stack has %d", len(gotChain), len(wantChain))
		}
		for i := range gotChain {
			if gotChain[i] != wantChain[i] {
				t.Fatalf("helper frame %d of the crash name is %q, the crashing goroutine's stack has %q\nname: %q", i, gotChain[i], wantChain[i], name)
			}
		}
		// the crashing function and the faulting line
		var crashFrame string
		for _, l := range lines {
			if strings.Contains(l, "crashmonitor.c14Crash:") {
				crashFrame = l
			}
		}
		if crashFrame == "" {
			t.Fatalf("the crashing function is not among the frames: %q", lines)
		}
		var faultLine int
		if i := strings.Index(out, "FAULTLINE "); i >= 0 {
			fmt.Sscanf(out[i:], "FAULTLINE %d", &faultLine)
		}
		entryLine := 0
		{
			pc := reflectPC(c14Crash)
			f := runtime.FuncForPC(pc)
			_, entryLine = f.FileLine(f.Entry())
		}
		wantRel := fmt.Sprintf(":%+d,", faultLine-entryLine)
		if !strings.Contains(crashFrame, wantRel) {
			t.Fatalf("crash kind %s: frame %q, the faulting statement is at function-relative line %s", kind, crashFrame, wantRel)
		}
		if len(gotChain) < len(wantChain) && len(lines) < 16 {
			t.Fatalf("crash name has only %d frames but drops helper frames (%d of %d)", len(lines), len(gotChain), len(wantChain))
		}
		if strings.Contains(name, "SECRET") || strings.Contains(name, "boom") {
			t.Fatalf("panic message reached the counter name")
		}
		vstats.Case(fmt.Sprintf("kind=%s chain=%v frames=%d", kind, chain, len(lines)), true, "kind:"+kind, fmt.Sprintf("capped:%v", len(gotChain) < len(wantChain)))
	})
}

func reflectPC(f any) uintptr { return reflect.ValueOf(f).Pointer() }

// TestVerifC14RegressDeep replays, without the generator, the deep-recursion
// crash whose traceback contains the runtime's "...N frames elided..." line
// (found by TestVerifC14RealCrashes and repaired by a "fix:" commit).
func TestVerifC14RegressDeep(t *testing.T) {
	defer vstats.Flush()
	exe, err := os.Executable()
	if err != nil {
		t.Fatal(err)
	}
	chain := make([]int, 50)
	for i := range chain {
		chain[i] = []int{0, 8, 10}[i%3]
	}
	for _, kind := range []string{"panic", "nil"} {
		spec, _ := json.Marshal(c14Spec{chain, kind})
		cmd := exec.Command(exe)
		cmd.Env = append(os.Environ(), "VERIF_C14_CHILD="+string(spec), "GOTRACEBACK=system", "VERIF_STATS=")
		var stderr bytes.Buffer
		cmd.Stderr = &stderr
		cmd.Run()
		out := stderr.String()
		if !strings.Contains(out, "frames elided...") {
			t.Fatalf("harness: traceback of a 150-frame stack has no elided marker:\n%s", out)
		}
		name, err := telemetryCounterName([]byte(out))
		if err != nil {
			t.Fatalf("genuine deep-recursion traceback (%s) rejected: %v", kind, err)
		}
		if !strings.Contains(counter.DecodeStack(name), "crashmonitor.c14Crash:") {
			t.Fatalf("crashing function missing from %q", name)
		}
		vstats.Case("regress deep "+kind, true, "regress")
	}
}

// ---------- the monitor process itself ----------

func init() {
	if out := os.Getenv("VERIF_C14_MONITOR"); out != "" {
		// this process is the monitor: it reads the crash text from its standard input like the real
		// child does; the counter it would increment is written to a file instead
		incrementCounter = func(name string) {
			f, _ := os.OpenFile(out, os.O_APPEND|os.O_CREATE|os.O_WRONLY, 0666)
			fmt.Fprintf(f, "%q\n", name)
			f.Close()
		}
		os.Setenv("TMPDIR", filepath.Dir(out)) // where a malformed report is saved
		Child()
		os.Exit(5) // not reached
	}
}

// TestVerifC14Monitor feeds generated crash texts of up to a few MiB to the monitor
// process (crashmonitor.Child) through a pipe, as the parent's dying gasp arrives, and
// compares the counter it records with the name derived in-process from the same text:
// what the monitor receives is what it reports, whatever the size of the panic message.
func TestVerifC14Monitor(t *testing.T) {
	defer vstats.Flush()
	exe, err := os.Executable()
	if err != nil {
		t.Fatal(err)
	}
	base := t.TempDir()
	real := c14RealPCs()
	n := 0
	rapid.Check(t, func(t *rapid.T) {
		n++
		dir := filepath.Join(base, fmt.Sprint(n))
		os.MkdirAll(dir, 0777)
		defer os.RemoveAll(dir)
		r := c14GenReport(t, real)
		d := c14GenDecor(t, "A")
		size := rapid.SampledFrom([]int{0, 0, 100 << 10, 1<<20 - 64, 1 << 20, 1<<20 + 4096, 3 << 20}).Draw(t, "messageBytes")
		if size > 0 {
			msg := "panic: " + strings.Repeat("large panic value ", size/18)
			if rapid.Bool().Draw(t, "multiLineMessage") {
				msg = strings.ReplaceAll(msg, "value large", "value\n\tlarge")
			}
			d.preamble = append(d.preamble, msg)
		}
		text := c14Render(r, d)
		want, werr := c14Name(t, text)
		out := filepath.Join(dir, "recorded")
		cmd := exec.Command(exe)
		cmd.Env = append(os.Environ(), "VERIF_C14_MONITOR="+out)
		cmd.Stdin = strings.NewReader(text)
		cmd.Run()
		got, _ := os.ReadFile(out)
		var recorded []string
		for _, l := range strings.Split(strings.TrimSpace(string(got)), "\n") {
			if l != "" {
				s, _ := strconv.Unquote(l)
				recorded = append(recorded, s)
			}
		}
		desc := fmt.Sprintf("text of %d bytes (message %d bytes), in-process result (%.40q, %v)", len(text), size, want, werr)
		switch {
		case strings.Count(text, "\n") < 2:
			if len(recorded) != 0 {
				t.Fatalf("%s: not a crash report, but the monitor recorded %q", desc, recorded)
			}
		case werr != nil:
			if len(recorded) != 1 || recorded[0] != "crash/malformed" {
				t.Fatalf("%s: the monitor recorded %q, want crash/malformed", desc, recorded)
			}
		default:
			if len(recorded) != 1 || recorded[0] != want {
				t.Fatalf("%s: the monitor recorded %.200q, the name derived from the text it was sent is %.200q", desc, recorded, want)
			}
		}
		vstats.Case(fmt.Sprintf("bytes=%d message=%d err=%v", len(text), size, werr != nil), size >= 1<<20-64 && werr == nil, fmt.Sprintf("messageMiB:%d", size>>20), fmt.Sprintf("err:%v", werr != nil))
	})
}
