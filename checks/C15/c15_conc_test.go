package counter

// C15 — "incrementing from the same call stack always hits one counter", when the
// increments come from several goroutines at the same moment (a server's handlers
// reaching the same bug report site together): 2-8 goroutines are released from a
// barrier and each increments the same stack counter through the same call chain,
// so their stacks are identical frame for frame. The schedule is the Go scheduler's
// (not reproducible step by step); the oracle holds for every interleaving.

import (
	"fmt"
	"sync"
	"testing"

	"golang.org/x/telemetry/internal/verif/vstats"
	"golang.org/x/telemetry/internal/verif/vstk/disp"
	"pgregory.net/rapid"
)

func TestVerifC15SameStackTogether(t *testing.T) {
	defer vstats.Flush()
	rapid.Check(t, func(t *rapid.T) {
		CrashOnBugs = false
		depth := rapid.SampledFrom([]int{3, 8, 16, 40}).Draw(t, "depth")
		chain := c15Chain(t, "chain")
		n := rapid.IntRange(2, 8).Draw(t, "goroutines")
		times := rapid.IntRange(1, 3).Draw(t, "times")
		for round := 0; round < 20; round++ {
			sc := &StackCounter{name: "stk", depth: depth, file: &file{}}
			var start, done sync.WaitGroup
			start.Add(1)
			for g := 0; g < n; g++ {
				done.Add(1)
				go func() {
					defer done.Done()
					start.Wait()
					for k := 0; k < times; k++ {
						disp.Run(chain, 0, func() { sc.Inc() })
					}
				}()
			}
			start.Done()
			done.Wait()
			cs := sc.Counters()
			var total uint64
			for _, c := range cs {
				total += c.state.load().extra()
			}
			if len(cs) != 1 {
				var names []string
				for _, c := range cs {
					names = append(names, fmt.Sprintf("%s=%d", c15Short(c.Name()), c.state.load().extra()))
				}
				t.Fatalf("%d goroutines incremented %d time(s) each from one and the same call stack (chain %s), and the increments went to %d counters: %v", n, times, c15ChainString(chain), len(cs), names)
			}
			if total != uint64(n*times) {
				t.Fatalf("%d goroutines x %d increments from one call stack, counter holds %d", n, times, total)
			}
		}
		vstats.Case(fmt.Sprintf("depth=%d chain=%s goroutines=%d times=%d", depth, c15ChainString(chain), n, times), n > 2, fmt.Sprintf("goroutines:%d", n))
	})
}
