package counter

// C15 — the same clauses seen through the counter file: a stack counter backed by
// an open file is incremented from generated call chains (shallow ones, and ones
// deep enough for the name to be cut at 4096 bytes); afterwards the file, read by
// the independent decoder, holds for every call stack one record whose value is
// the number of increments from that stack - nothing stays in memory, no stack is
// missing, truncated names are records like any other.

import (
	"fmt"
	"os"
	"path/filepath"
	"strconv"
	"strings"
	"testing"
	"time"

	"golang.org/x/telemetry/internal/telemetry"
	"golang.org/x/telemetry/internal/verif/vformat"
	"golang.org/x/telemetry/internal/verif/vstats"
	"golang.org/x/telemetry/internal/verif/vstk/disp"
	"pgregory.net/rapid"
)

var c15FileSeq int

func TestVerifC15File(t *testing.T) {
	defer vstats.Flush()
	base := t.TempDir()
	saved := telemetry.Default
	savedTime := CounterTime
	defer func() { telemetry.Default = saved; CounterTime = savedTime }()
	rapid.Check(t, func(t *rapid.T) {
		CrashOnBugs = false
		c15FileSeq++
		dir := filepath.Join(base, strconv.Itoa(c15FileSeq))
		defer os.RemoveAll(dir)
		telemetry.Default = telemetry.NewDir(dir)
		os.MkdirAll(telemetry.Default.LocalDir(), 0777)
		os.WriteFile(filepath.Join(telemetry.Default.LocalDir(), "weekends"), []byte("3\n"), 0666)
		os.WriteFile(filepath.Join(dir, "mode"), []byte("local 2020-01-01"), 0666)
		now := time.Date(2024, 3, 4, 12, 0, 0, 0, time.UTC)
		CounterTime = func() time.Time { return now }
		f := &file{}
		defer func() {
			if m := f.current.Load(); m != nil {
				m.close()
			}
		}()
		openFirst := rapid.Bool().Draw(t, "openFirst")
		if openFirst {
			f.rotate1()
		}
		depth := rapid.SampledFrom([]int{2, 5, 16, 40, 200, 400}).Draw(t, "depth")
		prefix := rapid.SampledFrom([]string{"stk", "crash/crash", "gopls/bug"}).Draw(t, "prefix")
		sc := &StackCounter{name: prefix, depth: depth, file: f}
		nchains := rapid.IntRange(1, 5).Draw(t, "nchains")
		incs := 0
		for i := 0; i < nchains; i++ {
			chain := c15Chain(t, fmt.Sprintf("chain%d", i))
			if rapid.IntRange(0, 2).Draw(t, "deep") == 0 {
				// long function names, repeated: the encoded name reaches the limit after a few frames
				chain = nil
				for j, n := 0, rapid.IntRange(8, 60).Draw(t, "deepLen"); j < n; j++ {
					chain = append(chain, 16+rapid.IntRange(0, 11).Draw(t, "longStep")) // the steps of package long
				}
			}
			for k, n := 0, rapid.IntRange(1, 3).Draw(t, "times"); k < n; k++ {
				disp.Run(chain, 0, func() { sc.Inc() })
				incs++
			}
		}
		if !openFirst {
			f.rotate1() // everything counted so far is pending; opening writes it out
		}
		if f.current.Load() == nil {
			t.Fatalf("cannot open the counter file: %v", f.err)
		}
		path := f.current.Load().f.Name()
		data, err := os.ReadFile(path)
		if err != nil {
			t.Fatal(err)
		}
		vf, err := vformat.Decode(data)
		if err != nil {
			t.Fatalf("the counter file is not well-formed: %v", err)
		}
		want := map[string]uint64{}
		truncated := false
		for _, c := range sc.Counters() {
			st := c.state.load()
			// in memory: every increment was added to exactly one Counter object; what an object still holds
			// (nothing, with a file open) plus what its record holds is what was added to it
			if e := st.extra(); e != 0 {
				t.Fatalf("a counter file is open, but %d increment(s) of the stack counter %s (%d bytes) are still in memory and not in the file", e, c15Short(c.Name()), len(c.Name()))
			}
			if len(c.Name()) > maxNameLen {
				t.Fatalf("stack counter name of %d bytes", len(c.Name()))
			}
			if strings.HasSuffix(c.Name(), "\ntruncated\n") {
				truncated = true
			}
			want[c.Name()] = 0
		}
		var total uint64
		for name := range want {
			v, ok := vf.Count[name]
			if !ok {
				t.Fatalf("the stack counter %s (%d bytes) was incremented but has no record in the file", c15Short(name), len(name))
			}
			total += v
		}
		if total != uint64(incs) {
			t.Fatalf("%d increments from %d call chains, but the records of the stack counter sum to %d", incs, nchains, total)
		}
		for name := range vf.Count {
			if _, ok := want[name]; !ok && strings.HasPrefix(name, prefix+"\n") {
				t.Fatalf("the file holds a record %s that no increment hit", c15Short(name))
			}
		}
		vstats.Case(fmt.Sprintf("depth=%d prefix=%s chains=%d incs=%d counters=%d openFirst=%v truncated=%v", depth, prefix, nchains, incs, len(want), openFirst, truncated), truncated,
			fmt.Sprintf("truncated:%v", truncated), fmt.Sprintf("openFirst:%v", openFirst))
	})
}

func c15Short(s string) string {
	if len(s) > 24 {
		return fmt.Sprintf("%q...(%d bytes)", s[:24], len(s))
	}
	return fmt.Sprintf("%q", s)
}
