package counter

// C15 — Stack counter names identify call stacks faithfully and within bounds.
//
// Identifiers of the package under test this harness relies on:
//   StackCounter{name,depth,file}, (*StackCounter).Inc/Counters, EncodeStack,
//   DecodeStack, IsStackCounter, Counter.state.load().extra(), maxNameLen, Parse.

import (
	"fmt"
	"runtime"
	"strings"
	"testing"

	"golang.org/x/telemetry/internal/verif/vformat"
	"golang.org/x/telemetry/internal/verif/vstats"
	"golang.org/x/telemetry/internal/verif/vstk/disp"
	"pgregory.net/rapid"
)

// c15Render is the uncompressed rendering of a PC slice, written against the
// documentation of the encoding (function-relative line, offset from entry;
// "=" and absolute line for frames without function information), without any
// import-path abbreviation.
func c15Render(pcs []uintptr) []string {
	var out []string
	frs := runtime.CallersFrames(pcs)
	for {
		fr, more := frs.Next()
		if fr.Func != nil {
			_, entryLine := fr.Func.FileLine(fr.Entry)
			out = append(out, fmt.Sprintf("%s:%+d,+0x%x", fr.Function, fr.Line-entryLine, fr.PC-fr.Entry))
		} else {
			out = append(out, fmt.Sprintf("%s:=%d,+0x%x", fr.Function, fr.Line, fr.PC-fr.Entry))
		}
		if !more {
			break
		}
	}
	return out
}

func c15Chain(t *rapid.T, label string) []int {
	n := rapid.OneOf(rapid.IntRange(0, 6), rapid.IntRange(0, 25), rapid.IntRange(20, 60)).Draw(t, label+"Len")
	chain := make([]int, n)
	style := rapid.IntRange(0, 3).Draw(t, label+"Style")
	a, b := rapid.IntRange(0, disp.NumSteps-1).Draw(t, label+"A"), rapid.IntRange(0, disp.NumSteps-1).Draw(t, label+"B")
	for i := range chain {
		switch style {
		case 0: // repeated package
			chain[i] = a
		case 1: // alternating packages (defeats ditto compression)
			chain[i] = []int{a, b}[i%2]
		default:
			chain[i] = rapid.IntRange(0, disp.NumSteps-1).Draw(t, label)
		}
	}
	return chain
}

func c15ChainString(chain []int) string {
	var s []string
	for _, c := range chain {
		s = append(s, disp.Names[c])
	}
	return "[" + strings.Join(s, " ") + "]"
}

// TestVerifC15Chains: generated call chains ending in StackCounter.Inc.
func TestVerifC15Chains(t *testing.T) {
	defer vstats.Flush()
	rapid.Check(t, func(t *rapid.T) {
		CrashOnBugs = false
		depth := rapid.SampledFrom([]int{1, 2, 3, 5, 8, 16, 40, 200, 400}).Draw(t, "depth")
		prefix := rapid.SampledFrom([]string{"stk", "crash/crash", "a.b", "gopls/bug"}).Draw(t, "prefix")
		sc := &StackCounter{name: prefix, depth: depth, file: &file{}}
		nchains := rapid.IntRange(2, 5).Draw(t, "nchains")
		var chains [][]int
		for i := 0; i < nchains; i++ {
			if i > 0 && rapid.IntRange(0, 2).Draw(t, "repeat") == 0 {
				chains = append(chains, chains[rapid.IntRange(0, i-1).Draw(t, "repeatOf")]) // the same call stack again
			} else {
				chains = append(chains, c15Chain(t, fmt.Sprintf("chain%d", i)))
			}
		}
		if rapid.IntRange(0, 24).Draw(t, "manyStacks") == 0 {
			// one counter incremented from more than a thousand different call stacks (a long-running server with
			// many code paths): three-step chains enumerated from a drawn starting point, all different
			// (with the larger depths the stacks are shallower than the depth, and of different lengths)
			depth = rapid.SampledFrom([]int{3, 8, 16, 40, 64}).Draw(t, "manyDepth")
			sc = &StackCounter{name: prefix, depth: depth, file: &file{}}
			chains = nil
			n, from := rapid.IntRange(1030, 1500).Draw(t, "nstacks"), rapid.IntRange(0, 20000).Draw(t, "firstStack")
			if rapid.Bool().Draw(t, "fewerStacks") {
				n = rapid.IntRange(60, 300).Draw(t, "nstacksFew")
			}
			again := rapid.Bool().Draw(t, "everyTenthAgain")
			for i := from; i < from+n; i++ {
				chains = append(chains, []int{i % disp.NumSteps, i / disp.NumSteps % disp.NumSteps, i / disp.NumSteps / disp.NumSteps % disp.NumSteps})
				if again && i%10 == 9 {
					chains = append(chains, chains[len(chains)-1-(i-from)%7]) // a stack seen before, in between
				}
			}
			vstats.Label("manyStacks")
		}
		type obs struct {
			identity string // harness view of the top-depth frames
			name     string // counter that was hit
			full     []string
		}
		var seen []obs
		ditto, change, truncated := false, false, false
		for _, chain := range chains {
			var pcs []uintptr
			before := map[*Counter]uint64{}
			for _, c := range sc.Counters() {
				before[c] = c.state.load().extra()
			}
			disp.Run(chain, 0, func() {
				buf := make([]uintptr, depth)
				n := runtime.Callers(1, buf) // this closure is frame 0, exactly as for Inc's caller
				pcs = buf[:n]
				sc.Inc()
			})
			// which counter was hit?
			var hit *Counter
			for _, c := range sc.Counters() {
				if c.state.load().extra() == before[c]+1 {
					if hit != nil {
						t.Fatalf("one Inc incremented two counters")
					}
					hit = c
				} else if c.state.load().extra() != before[c] {
					t.Fatalf("counter %q changed by %d", c.Name(), c.state.load().extra()-before[c])
				}
			}
			if hit == nil {
				t.Fatalf("Inc from chain %s hit no counter", c15ChainString(chain))
			}
			full := c15Render(pcs)
			// frame 0 differs between the harness's Callers call and Inc's (two lines of the same closure): compare from frame 1
			id := strings.Join(full[1:], "\n") + fmt.Sprintf("|%d", len(full))
			name := hit.Name()
			if len(name) > maxNameLen {
				t.Fatalf("stack counter name of %d bytes exceeds %d", len(name), maxNameLen)
			}
			if !strings.HasPrefix(name, prefix+"\n") {
				t.Fatalf("name %q does not start with the counter's prefix", name)
			}
			isTrunc := strings.HasSuffix(name, "\ntruncated\n")
			lines := strings.Split(DecodeStack(name), "\n")
			if !isTrunc {
				// expanded name = prefix + the uncompressed rendering of the same frames (frame 0 is Inc's call line in our closure)
				if len(lines) != len(full)+1 {
					t.Fatalf("expanded name has %d frames, the stack has %d\n%s", len(lines)-1, len(full), DecodeStack(name))
				}
				for i := 1; i < len(full); i++ {
					if lines[i+1] != full[i] {
						t.Fatalf("frame %d of the expanded name is %q, uncompressed rendering is %q", i, lines[i+1], full[i])
					}
				}
				fn0, _, _ := strings.Cut(full[0], ":")
				if !strings.HasPrefix(lines[1], fn0+":") {
					t.Fatalf("frame 0 of the expanded name is %q, want function %q", lines[1], fn0)
				}
				total := len(prefix)
				for _, l := range strings.Split(name, "\n")[1:] {
					total += 1 + len(l)
				}
			} else {
				truncated = true
				if len(name) != maxNameLen {
					t.Fatalf("truncated name has %d bytes, want exactly %d", len(name), maxNameLen)
				}
			}
			// a name is marked truncated iff the full (compressed) rendering did not fit
			enc := EncodeStack(pcs, prefix)
			if !isTrunc && len(DecodeStack(enc)) > 0 && strings.HasSuffix(enc, "\ntruncated\n") != isTrunc {
				// pcs differs from Inc's only in frame 0's line; lengths are equal up to that line number's digits
				vstats.Label("note:truncation-differs-between-harness-and-inc-pcs")
			}
			if strings.Contains(name, "\n\".") {
				ditto = true
			}
			for i := 2; i < len(lines); i++ {
				pi, _, _ := strings.Cut(lines[i], ":")
				pj, _, _ := strings.Cut(lines[i-1], ":")
				if pi[:strings.LastIndex(pi, ".")+1] != pj[:strings.LastIndex(pj, ".")+1] {
					change = true
				}
			}
			for _, o := range seen {
				if o.identity == id && o.name != name {
					t.Fatalf("the same call stack hit two different counters:\n%q\n%q", o.name, name)
				}
				if o.identity != id && o.name == name && !isTrunc {
					t.Fatalf("two different call stacks (untruncated) hit the same counter %q:\n%s\n---\n%s", name, o.identity, id)
				}
			}
			seen = append(seen, obs{id, name, full})
		}
		// same stack twice -> value 2 on one counter
		count := map[string]int{}
		for _, o := range seen {
			count[o.name]++
		}
		// Several Counter objects may carry one name (they share one record in the file): stacks that differ only
		// in program counters inside frames that render identically, e.g. two instantiations GF[int] and GF[[]int]
		// of one generic function, both printed "GF[...]" with equal offsets. Values are summed per name.
		got := map[string]int{}
		for _, c := range sc.Counters() {
			got[c.Name()] += int(c.state.load().extra())
		}
		for name, g := range got {
			if g != count[name] {
				t.Fatalf("counter %q has value %d after %d increments from its stack", name, g, count[name])
			}
		}
		for name, n := range count {
			if got[name] != n {
				t.Fatalf("counter %q has value %d after %d increments from its stack", name, got[name], n)
			}
		}
		var cs []string
		for _, c := range chains {
			if len(cs) == 6 {
				cs = append(cs, fmt.Sprintf("... (%d chains)", len(chains)))
				break
			}
			cs = append(cs, c15ChainString(c))
		}
		vstats.Case(fmt.Sprintf("depth=%d prefix=%s chains=%v", depth, prefix, cs), ditto && change, fmt.Sprintf("ditto:%v", ditto),
			fmt.Sprintf("pkgChange:%v", change), fmt.Sprintf("truncated:%v", truncated))
	})
}

// TestVerifC15Encode: EncodeStack/DecodeStack on PC slices of generated chains at any depth (incl. beyond truncation).
func TestVerifC15Encode(t *testing.T) {
	defer vstats.Flush()
	rapid.Check(t, func(t *rapid.T) {
		chain := c15Chain(t, "chain")
		depth := rapid.IntRange(1, 250).Draw(t, "depth")
		skip := rapid.IntRange(0, 3).Draw(t, "skip")
		prefix := rapid.SampledFrom([]string{"stk", "crash/crash", "a.b", "x"}).Draw(t, "prefix")
		var pcs []uintptr
		disp.Run(chain, 0, func() {
			buf := make([]uintptr, depth)
			pcs = buf[:runtime.Callers(skip, buf)]
		})
		if len(pcs) == 0 {
			t.Skip("no frames")
		}
		name := EncodeStack(pcs, prefix)
		full := prefix + "\n" + strings.Join(c15Render(pcs), "\n")
		if len(name) > maxNameLen {
			t.Fatalf("encoded name has %d bytes", len(name))
		}
		isTrunc := strings.HasSuffix(name, "\ntruncated\n")
		dec := DecodeStack(name)
		if !isTrunc {
			if dec != full {
				t.Fatalf("DecodeStack(EncodeStack(pcs)) differs from the uncompressed rendering:\n%s\n---\n%s", dec, full)
			}
			if len(name) > len(full) {
				t.Fatalf("compressed name longer than the uncompressed one")
			}
		} else {
			if len(name) != maxNameLen {
				t.Fatalf("truncated name has %d bytes, want %d", len(name), maxNameLen)
			}
			if len(full) <= maxNameLen-len("\ntruncated\n") && false {
				t.Fatalf("marked truncated although it fits")
			}
			// the untruncated part expands to a prefix of the uncompressed rendering
			body := strings.TrimSuffix(name, "\ntruncated\n")
			if i := strings.LastIndexByte(body, '\n'); i >= 0 {
				body = body[:i] // the last line may be cut in the middle
			}
			if d := DecodeStack(body); !strings.HasPrefix(full, d) {
				t.Fatalf("the kept part of a truncated name does not expand to a prefix of the full rendering:\n%s", d)
			}
		}
		// a name is marked iff it was truncated: an unmarked name must carry every frame
		if !isTrunc && strings.Count(name, "\n") != len(c15Render(pcs)) {
			t.Fatalf("unmarked name carries %d frames of %d", strings.Count(name, "\n"), len(c15Render(pcs)))
		}
		if vformat.ExpandStack(name) != dec {
			t.Fatalf("independent expansion differs from DecodeStack:\n%q\n%q", vformat.ExpandStack(name), dec)
		}
		if !IsStackCounter(name) {
			t.Fatalf("encoded stack name not recognised as a stack counter")
		}
		if strings.Contains(dec, "\n") != IsStackCounter(dec) {
			t.Fatalf("IsStackCounter of the decoded name (%d bytes) = %v", len(dec), IsStackCounter(dec))
		}
		if len(dec) > maxNameLen {
			vstats.Label("decodedBeyondLimit")
		}
		vstats.Case(fmt.Sprintf("chain=%s depth=%d skip=%d prefix=%s len=%d trunc=%v", c15ChainString(chain), depth, skip, prefix, len(name), isTrunc),
			strings.Contains(name, "\n\".") && len(chain) > 1, fmt.Sprintf("truncated:%v", isTrunc))
	})
}

// TestVerifC15Decode: DecodeStack is total on arbitrary strings, the identity
// on names without newline; a name is a stack counter exactly when it contains
// a newline, and the file reader classifies the same way.
func TestVerifC15Decode(t *testing.T) {
	defer vstats.Flush()
	rapid.Check(t, c15DecodeProp)
}

// FuzzVerifC15Decode: the same property under Go's coverage-guided fuzzer (thorough tier).
func FuzzVerifC15Decode(f *testing.F) {
	defer vstats.Flush()
	f.Fuzz(rapid.MakeFuzz(c15DecodeProp))
}

func c15DecodeProp(t *rapid.T) {
	{
		s := rapid.OneOf(
			rapid.StringOf(rapid.RuneFrom([]rune("ab./\"\n:+,0x= "))),
			rapid.String(),
			rapid.StringMatching(`[a-z]{1,5}(/[a-z.]{1,6}){0,3}(\n("|[a-z./]{1,12})\.[a-zA-Z().*\[\]]{1,10}:[+=]?[0-9]{1,3},\+0x[0-9a-f]{1,4}){0,6}\n?`),
		).Draw(t, "s")
		// one case in four at lengths around and beyond the counter-name limit: the decoded form of an
		// encoded name is often longer than the limit, and callers classify decoded names
		if k := rapid.IntRange(0, 3).Draw(t, "long"); k == 0 {
			pad := rapid.SampledFrom([]int{4000, 4090, 4095, 4096, 4097, 5000, 9000}).Draw(t, "padTo")
			filler := rapid.SampledFrom([]string{"x", "golang.org/x/verylongpath/pkg.F:1,+0x1\n", "\n", "\"."}).Draw(t, "filler")
			for len(s) < pad {
				s += filler
			}
			if rapid.Bool().Draw(t, "cutExact") {
				s = s[:pad]
			}
			vstats.Label("decode:long")
		}
		var dec string
		func() {
			defer func() {
				if p := recover(); p != nil {
					t.Fatalf("DecodeStack(%q) panicked: %v", s, p)
				}
			}()
			dec = DecodeStack(s)
		}()
		hasNL := strings.Contains(s, "\n")
		if IsStackCounter(s) != hasNL {
			t.Fatalf("IsStackCounter(%q) = %v", s, IsStackCounter(s))
		}
		if IsStackCounter(dec) != strings.Contains(dec, "\n") {
			t.Fatalf("IsStackCounter(DecodeStack(%q)) = %v (decoded length %d)", s, IsStackCounter(dec), len(dec))
		}
		if !hasNL && dec != s {
			t.Fatalf("DecodeStack changed an ordinary counter name %q -> %q", s, dec)
		}
		if strings.Count(dec, "\n") != strings.Count(s, "\n") {
			t.Fatalf("DecodeStack changed the number of lines of %q", s)
		}
		if want := vformat.ExpandStack(s); dec != want {
			t.Fatalf("DecodeStack(%q) = %q, independent expansion gives %q", s, dec, want)
		}
		// the file reader expands and classifies the same way
		if len(s) >= 1 && len(s) <= maxNameLen {
			data, err := vformat.Encode("A: b\n\n", []vformat.Rec{{Name: s, Value: 3, Flags: 0xff}}, nil)
			if err == nil {
				pf, err := Parse("x", data)
				if err != nil {
					t.Fatalf("Parse: %v", err)
				}
				if v, ok := pf.Count[dec]; !ok || v != 3 || len(pf.Count) != 1 {
					t.Fatalf("file reader returns %v for a record named %q (expanded %q)", pf.Count, s, dec)
				}
			}
		}
		vstats.Case(s, hasNL && strings.Contains(s, "\""), fmt.Sprintf("newline:%v", hasNL), fmt.Sprintf("changed:%v", dec != s))
	}
}
