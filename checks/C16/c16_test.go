package telemetry

// C16 — The telemetry sidecar starts only when permitted and never recursively.
//
// Identifiers of the package under test this harness relies on:
//   Start, Config, telemetryChildVar, telemetryUploadVar, acquireUploadToken.

import (
	"bytes"
	"encoding/json"
	"fmt"
	"os"
	"os/exec"
	"path/filepath"
	"strconv"
	"strings"
	"syscall"
	"testing"
	"time"

	"golang.org/x/telemetry/internal/verif/vsnap"
	"golang.org/x/telemetry/internal/verif/vstats"
	"pgregory.net/rapid"
)

type c16Cfg struct {
	Dir       string
	Crash     bool
	Upload    bool
	StartDays int // Config.UploadStartTime = now + StartDays days (0: not set)
}

// Every start of this binary under a C16 row appends a line to the process log;
// with role "start" it then calls Start the way an application's main would.
func init() {
	logPath := os.Getenv("VERIF_C16_LOG")
	if logPath == "" {
		return
	}
	f, err := os.OpenFile(logPath, os.O_WRONLY|os.O_APPEND|os.O_CREATE, 0666)
	if err == nil {
		kind := "pid"
		if filepath.Base(os.Args[0]) == "go" {
			// this binary stands in for the go command the uploading sidecar runs (found first on PATH): a
			// descendant of a telemetry child that is itself instrumented (it calls Start below like any program)
			kind = "gopid"
		}
		fmt.Fprintf(f, "%s=%d ppid=%d marker=%q upload=%q\n", kind, os.Getpid(), os.Getppid(), os.Getenv(telemetryChildVar), os.Getenv(telemetryUploadVar))
		f.Close()
	}
	if os.Getenv("VERIF_C16_ROLE") != "start" {
		return
	}
	var cfg c16Cfg
	json.Unmarshal([]byte(os.Getenv("VERIF_C16_CFG")), &cfg)
	c := Config{TelemetryDir: cfg.Dir, ReportCrashes: cfg.Crash, Upload: cfg.Upload, UploadURL: "http://127.0.0.1:1/upload"}
	if cfg.StartDays != 0 {
		// the documented way to simulate an upload at another time; it must not change who may start a sidecar
		c.UploadStartTime = time.Now().AddDate(0, 0, cfg.StartDays)
	}
	if os.Getenv("VERIF_C16_ENTRY") == "maybechild" {
		// a program like the go command, which cannot call Start first thing: it calls MaybeChild at the top of
		// main (the telemetry child does its work there and exits) and Start later
		MaybeChild(c)
	}
	Start(c)
	// Record which processes this one has spawned (harness-level observation through /proc,
	// independent of when the child gets to write its own log line).
	if f, err := os.OpenFile(logPath, os.O_WRONLY|os.O_APPEND, 0666); err == nil {
		ents, _ := os.ReadDir("/proc")
		for _, e := range ents {
			pid, err := strconv.Atoi(e.Name())
			if err != nil {
				continue
			}
			st, err := os.ReadFile("/proc/" + e.Name() + "/stat")
			if err != nil {
				continue
			}
			if i := strings.LastIndexByte(string(st), ')'); i >= 0 {
				fs := strings.Fields(string(st[i+1:]))
				if len(fs) > 1 && fs[1] == strconv.Itoa(os.Getpid()) {
					fmt.Fprintf(f, "spawned pid=%d by=%d\n", pid, os.Getpid())
				}
			}
		}
		f.Close()
	}
	// An application would now run; ours exits at once (closing the crash pipe).
	os.Exit(0)
}

type c16Row struct {
	Marker string // "unset", "1", "2", "other"
	Crash  bool
	Upload bool
	Mode   string // on, local, off, garbage, missing
	Token  string // absent, fresh, stale (25 h old), ahead (dated 3 h ahead of the clock), almost (23.5 h old)
	Dir    string // ok, uncreatable
	Text   int    // which spelling of the mode file (see c16ModeTexts); 0 = the plain one
	Start  int    // Config.UploadStartTime in days from now (0: not set)
	Debug  int    // 0: no debug directory; 1: an empty one (the user asked for logs); 2: one that has a sidecar.log already
	Zone   int    // 0: the environment's zone; 1: a zone whose clocks went forward an hour 12 hours ago; 2: back an hour 12 hours ago
	Entry  int    // 0: the program calls Start first thing; 1: it calls MaybeChild first and Start afterwards
}

// c16ModeTexts: spellings of a mode file that all read as the same mode (the mode is the first word;
// a second word that is not a date leaves the date unknown).
func init() {
	// what SetMode writes today; a token acquired yesterday evening is still younger than 24 hours
	today := time.Now().UTC().Format("2006-01-02")
	c16ModeTexts["on"] = append(c16ModeTexts["on"], "on "+today)
	c16ModeTexts["local"] = append(c16ModeTexts["local"], "local "+today)
}

var c16ModeTexts = map[string][]string{
	"on":    {"on 2020-01-01", "on", "on\n", "on  2020-01-01", "on 2020-1-1", " on 2020-01-01 \n", "\non 2020-01-01\n"},
	"local": {"local", "local 2020-02-02", "local\n", "local  x", "\r\n\tlocal\n\n"},
	// (the last two: a file edited by hand that begins with an empty line - white space around the whole text is not part of it)
	"off": {"off 2020-01-01", "off", " off \n", "off  2024-01-05", "off 2024-1-5", "off 2024-01-05T10:00:00Z", "off later", "\noff 2024-01-01\n", "\n\n \toff\n"},
}

func (r c16Row) modeText() string {
	if v := c16ModeTexts[r.Mode]; len(v) > 0 {
		return v[r.Text%len(v)]
	}
	return ""
}

func (r c16Row) String() string {
	return fmt.Sprintf("marker=%s crash=%v upload=%v mode=%s(%q) token=%s dir=%s uploadStart=%+dd debugDir=%d zone=%d entry=%d", r.Marker, r.Crash, r.Upload, r.Mode, r.modeText(), r.Token, r.Dir, r.Start, r.Debug, r.Zone, r.Entry)
}

// c16Model: how many children the row must launch, and with which upload flag.
func c16Model(r c16Row) (launch bool, uploadFlag bool) {
	if r.Marker != "unset" {
		return false, false
	}
	if r.Mode == "off" && r.Dir == "ok" {
		return false, false
	}
	if r.Dir == "uncreatable" {
		return false, false // the local directory cannot exist
	}
	// a token younger than 24 hours blocks; one dated ahead of the clock (clock stepped back, file server
	// with a fast clock) is not older than 24 hours either
	token := r.Upload && r.Token != "fresh" && r.Token != "ahead" && r.Token != "almost"
	return r.Crash || token, token
}

type c16Proc struct {
	pid, ppid int
	marker    string
	upload    string
	isGo      bool // the stand-in for the go command, run by the uploading sidecar
}

func c16ReadLog(path string) (out []c16Proc, spawned []int) {
	data, _ := os.ReadFile(path)
	for _, l := range strings.Split(string(data), "\n") {
		var p c16Proc
		if n, _ := fmt.Sscanf(l, "pid=%d ppid=%d marker=%q upload=%q", &p.pid, &p.ppid, &p.marker, &p.upload); n == 4 {
			out = append(out, p)
		}
		if n, _ := fmt.Sscanf(l, "gopid=%d ppid=%d marker=%q upload=%q", &p.pid, &p.ppid, &p.marker, &p.upload); n == 4 {
			p.isGo = true
			out = append(out, p)
		}
		var pid, by int
		if n, _ := fmt.Sscanf(l, "spawned pid=%d by=%d", &pid, &by); n == 2 {
			spawned = append(spawned, pid)
		}
	}
	return out, spawned
}

func c16Alive(pid int) bool {
	if err := syscall.Kill(pid, 0); err != nil {
		return false
	}
	// a zombie still answers kill(0); look at its state
	st, err := os.ReadFile(fmt.Sprintf("/proc/%d/stat", pid))
	if err != nil {
		return false
	}
	if i := strings.LastIndexByte(string(st), ')'); i >= 0 && i+2 < len(st) && st[i+2] == 'Z' {
		return false
	}
	return true
}

var c16Seq int

func vstatsLabelGo() { vstats.Label("sidecarRanGoCommand") }

type c16Fataler interface {
	Fatalf(format string, args ...any)
}

func c16RunRow(t c16Fataler, base, exe string, r c16Row) {
	c16Seq++
	root := filepath.Join(base, strconv.Itoa(c16Seq))
	defer os.RemoveAll(root)
	tdir := filepath.Join(root, "tele")
	os.MkdirAll(tdir, 0777)
	if r.Dir == "uncreatable" {
		// the telemetry directory lies below a regular file: nothing can be created in it
		os.WriteFile(filepath.Join(root, "file"), []byte("x"), 0666)
		tdir = filepath.Join(root, "file", "tele")
	} else {
		switch r.Mode {
		case "on", "local", "off":
			os.WriteFile(filepath.Join(tdir, "mode"), []byte(r.modeText()), 0666)
		case "garbage":
			os.WriteFile(filepath.Join(tdir, "mode"), []byte("enabled!"), 0666)
		}
		if r.Mode == "off" {
			// telemetry was in use before it was turned off: the data directory exists
			os.MkdirAll(filepath.Join(tdir, "local"), 0777)
			os.WriteFile(filepath.Join(tdir, "local", "weekends"), []byte("1\n"), 0666)
		}
		if r.Debug > 0 {
			os.MkdirAll(filepath.Join(tdir, "debug"), 0777)
			if r.Debug == 2 {
				os.WriteFile(filepath.Join(tdir, "debug", "sidecar.log"), []byte("earlier output\n"), 0666)
			}
		}
		if r.Token != "absent" {
			os.MkdirAll(filepath.Join(tdir, "local"), 0777)
			tok := filepath.Join(tdir, "local", "upload.token")
			os.WriteFile(tok, nil, 0666)
			switch r.Token {
			case "stale":
				old := time.Now().Add(-25 * time.Hour)
				os.Chtimes(tok, old, old)
			case "ahead":
				at := time.Now().Add(3 * time.Hour)
				os.Chtimes(tok, at, at)
			case "almost":
				at := time.Now().Add(-23*time.Hour - 30*time.Minute)
				os.Chtimes(tok, at, at)
			}
		}
	}
	logPath := filepath.Join(root, "proc.log")
	cfgJSON, _ := json.Marshal(c16Cfg{Dir: tdir, Crash: r.Crash, Upload: r.Upload, StartDays: r.Start})
	before := vsnap.Take(tdir)
	cmd := exec.Command(exe)
	env := []string{}
	for _, e := range os.Environ() {
		if !strings.HasPrefix(e, telemetryChildVar+"=") && !strings.HasPrefix(e, telemetryUploadVar+"=") && !strings.HasPrefix(e, "VERIF_STATS=") {
			env = append(env, e)
		}
	}
	env = append(env, "VERIF_C16_LOG="+logPath, "VERIF_C16_ROLE=start", "VERIF_C16_CFG="+string(cfgJSON))
	// a stand-in for the go command, first on PATH: this binary under the name "go"
	bin := filepath.Join(root, "bin")
	os.MkdirAll(bin, 0777)
	os.Symlink(exe, filepath.Join(bin, "go"))
	for i, e := range env {
		if strings.HasPrefix(e, "PATH=") {
			env[i] = "PATH=" + bin + string(os.PathListSeparator) + strings.TrimPrefix(e, "PATH=")
		}
	}
	switch r.Marker {
	case "1", "2":
		env = append(env, telemetryChildVar+"="+r.Marker)
	case "other":
		env = append(env, telemetryChildVar+"=3")
	}
	if r.Entry == 1 {
		env = append(env, "VERIF_C16_ENTRY=maybechild")
	}
	if r.Zone != 0 {
		// the process's local zone had a clock change twelve hours ago: a calendar day back from now is 23 (or 25)
		// hours long there; the token's 24 hours are elapsed time
		zf := filepath.Join(root, "zone.tzif")
		before, after := -5*3600, -4*3600
		if r.Zone == 2 {
			before, after = -4*3600, -5*3600
		}
		os.WriteFile(zf, c16ZoneFile(time.Now().Add(-12*time.Hour), before, after), 0666)
		env = append(env, "TZ="+zf)
	}
	cmd.Env = env
	cmd.Stdin = nil // /dev/null: a directly started telemetry child sees EOF on its crash pipe at once
	cmd.Run()
	// the sidecar is daemonised: wait for every logged process to exit before looking at anything
	deadline := time.Now().Add(20 * time.Second)
	var procs []c16Proc
	for {
		var spawned []int
		procs, spawned = c16ReadLog(logPath)
		pending := 0
		logged := map[int]bool{}
		for _, p := range procs {
			logged[p.pid] = true
			if c16Alive(p.pid) {
				pending++
			}
		}
		for _, pid := range spawned {
			// a spawned process that is still alive, or has not logged yet although it ran
			if c16Alive(pid) {
				pending++
			}
		}
		if pending == 0 {
			break
		}
		if time.Now().After(deadline) {
			for _, p := range procs {
				syscall.Kill(p.pid, syscall.SIGKILL)
			}
			for _, pid := range spawned {
				syscall.Kill(pid, syscall.SIGKILL)
			}
			t.Fatalf("harness: processes of row {%s} still alive after 20s: %+v %v", r, procs, spawned)
		}
		time.Sleep(2 * time.Millisecond)
	}
	{
		// every spawned process must be one of the logged ones (it is this binary). All processes have exited:
		// the log is complete now (the copy read inside the loop may predate the last child's line).
		var spawned []int
		procs, spawned = c16ReadLog(logPath)
		logged := map[int]bool{}
		for _, p := range procs {
			logged[p.pid] = true
		}
		for _, pid := range spawned {
			if !logged[pid] {
				t.Fatalf("row {%s}: a spawned process (pid %d) did not run this binary's init (log %+v)", r, pid, procs)
			}
		}
	}
	if len(procs) == 0 {
		t.Fatalf("harness: row {%s}: the started process left no log line", r)
	}
	launch, uploadFlag := c16Model(r)
	// the stand-in go command is a descendant of a telemetry child: it must see the marker (so that its own
	// Start does nothing); it is not one of the telemetry children counted below
	var plain []c16Proc
	for _, p := range procs {
		if p.isGo {
			if p.marker == "" {
				t.Fatalf("row {%s}: the go command run by the sidecar (pid %d) started without the telemetry-child marker: as an instrumented program it launches a sidecar of its own (log %+v)", r, p.pid, procs)
			}
			if p.marker == "1" {
				t.Fatalf("row {%s}: the go command run by the sidecar (pid %d) started with the marker of the telemetry child itself (1): as an instrumented program it takes itself for a sidecar instead of a descendant that does nothing (log %+v)", r, p.pid, procs)
			}
			vstatsLabelGo()
			continue
		}
		plain = append(plain, p)
	}
	if os.Getenv("VERIF_C16_DEBUG") != "" && launch && uploadFlag && r.Mode == "on" && len(plain) == len(procs) {
		data, _ := os.ReadFile(logPath)
		t.Fatalf("DEBUG row {%s}: no go stand-in seen; log:\n%s", r, data)
	}
	procs = plain
	top := procs[0]
	children := procs[1:]
	for _, p := range procs {
		if p.pid != top.pid && p.marker == "2" {
			t.Fatalf("row {%s}: a process started with the child marker 2 (a telemetry child launched a grandchild): %+v", r, procs)
		}
	}
	want := 0
	if launch {
		want = 1
	}
	if len(children) != want {
		t.Fatalf("row {%s}: %d telemetry child process(es) launched, want %d (log %+v)", r, len(children), want, procs)
	}
	if launch {
		c := children[0]
		// (the parent may already have exited when the child logs, so its ppid is not checked)
		if c.marker != "1" {
			t.Fatalf("row {%s}: child started with marker %q, want 1", r, c.marker)
		}
		if (c.upload == "1") != uploadFlag {
			t.Fatalf("row {%s}: child started with upload flag %q, token acquired should be %v", r, c.upload, uploadFlag)
		}
	}
	after := vsnap.Take(tdir)
	if (r.Mode == "off" && r.Dir == "ok") || r.Marker == "2" || r.Marker == "other" {
		if d := vsnap.Diff(before, after, nil); len(d) > 0 {
			t.Fatalf("row {%s}: nothing may be written, but the telemetry directory changed: %v", r, d)
		}
	}
	if r.Marker == "unset" && r.Dir == "ok" && r.Mode != "off" && r.Upload {
		// the token is now held: a second starter within 24 hours does not get it
		if _, ok := after["local/upload.token"]; !ok {
			t.Fatalf("row {%s}: no upload token after an upload-enabled start", r)
		}
	}
}

func c16AllRows() []c16Row {
	var rows []c16Row
	for _, m := range []string{"unset", "1", "2", "other"} {
		for _, crash := range []bool{false, true} {
			for _, up := range []bool{false, true} {
				for _, mode := range []string{"on", "local", "off", "garbage", "missing"} {
					for _, tok := range []string{"absent", "fresh", "stale", "ahead", "almost"} {
						for v := 0; v < max(1, len(c16ModeTexts[mode])); v++ {
							for _, st := range []int{0, 3, -3} {
								if st != 0 && (!up || v != 0) {
									continue // the start time only matters to upload-enabled starts
								}
								// (the debug directory is not a dimension of the table: its three states are dealt out in turn)
								rows = append(rows, c16Row{m, crash, up, mode, tok, "ok", v, st, len(rows) % 3, len(rows) / 3 % 3, len(rows) / 9 % 2})
							}
						}
					}
				}
				rows = append(rows, c16Row{m, crash, up, "missing", "absent", "uncreatable", 0, 0, 0, 0, 0})
			}
		}
	}
	return rows
}

// TestVerifC16Rows samples rows of the decision table (quick tier).
func TestVerifC16Rows(t *testing.T) {
	defer vstats.Flush()
	exe, err := os.Executable()
	if err != nil {
		t.Fatal(err)
	}
	base := t.TempDir()
	rows := c16AllRows()
	var launching []int
	for i, r := range rows {
		if l, _ := c16Model(r); l {
			launching = append(launching, i)
		}
	}
	rapid.Check(t, func(t *rapid.T) {
		var r c16Row
		if rapid.Bool().Draw(t, "launchingRow") {
			r = rows[launching[rapid.IntRange(0, len(launching)-1).Draw(t, "li")]]
			// optionally flip one coordinate
			switch rapid.IntRange(0, 5).Draw(t, "flip") {
			case 0:
				r.Mode = "off"
			case 1:
				r.Marker = rapid.SampledFrom([]string{"1", "2", "other"}).Draw(t, "marker")
			case 2:
				r.Token = "fresh"
			case 3:
				r.Crash = !r.Crash
			}
		} else {
			r = rows[rapid.IntRange(0, len(rows)-1).Draw(t, "row")]
		}
		if r.Dir == "ok" {
			r.Debug = rapid.IntRange(0, 2).Draw(t, "debugDir")
			r.Zone = rapid.SampledFrom([]int{0, 0, 1, 1, 2}).Draw(t, "zone")
			r.Entry = rapid.IntRange(0, 1).Draw(t, "entry")
		}
		c16RunRow(t, base, exe, r)
		launch, _ := c16Model(r)
		vstats.Case(r.String(), true, fmt.Sprintf("launch:%v", launch), "marker:"+r.Marker, "mode:"+r.Mode)
	})
}

// TestVerifC16Table enumerates the whole table (thorough tier), sharded.
func TestVerifC16Table(t *testing.T) {
	defer vstats.Flush()
	exe, err := os.Executable()
	if err != nil {
		t.Fatal(err)
	}
	shard, _ := strconv.Atoi(os.Getenv("VERIF_SHARD"))
	shards, _ := strconv.Atoi(os.Getenv("VERIF_SHARDS"))
	if shards == 0 {
		shards = 1
	}
	base := t.TempDir()
	for i, r := range c16AllRows() {
		if i%shards != shard {
			continue
		}
		c16RunRow(t, base, exe, r)
		launch, _ := c16Model(r)
		vstats.Case(r.String(), true, fmt.Sprintf("launch:%v", launch), "table")
	}
	vstats.Note("table_rows_total", int64(len(c16AllRows())))
}

// c16ZoneFile returns a time zone file (TZif, version 1) for a zone at offset before seconds
// that changes to offset after at the given instant.
func c16ZoneFile(at time.Time, before, after int) []byte {
	var b bytes.Buffer
	be32 := func(v int32) { b.Write([]byte{byte(v >> 24), byte(v >> 16), byte(v >> 8), byte(v)}) }
	b.WriteString("TZif")
	b.Write(make([]byte, 16))                     // version 1, reserved
	for _, n := range []int32{0, 0, 0, 1, 2, 8} { // isutcnt, isstdcnt, leapcnt, timecnt, typecnt, charcnt
		be32(n)
	}
	be32(int32(at.Unix()))
	b.WriteByte(1) // the transition leads to type 1
	be32(int32(before))
	b.Write([]byte{0, 0})
	be32(int32(after))
	b.Write([]byte{1, 4})
	b.WriteString("AAA\x00BBB\x00")
	return b.Bytes()
}
