package telemetry

// C16 — the upload-token clause: in-package test of acquireUploadToken under generated
// interleavings of its file-system calls. Kept in a unit of its own: it depends on the
// unexported function's signature, and a tree on which it does not build must not take
// the process-level checks (c16_test.go) down with it.

import (
	"fmt"
	"os"
	"path/filepath"
	"sort"
	"strconv"
	"testing"

	it "golang.org/x/telemetry/internal/telemetry"
	"golang.org/x/telemetry/internal/verif/vhook"
	"golang.org/x/telemetry/internal/verif/vstats"
	"pgregory.net/rapid"
)

// TestVerifC16TokenRace: 2-5 starters race for the upload token; their
// file-system calls are interleaved by the generated schedule (rewritten copy
// of start.go).
func TestVerifC16TokenRace(t *testing.T) {
	defer vstats.Flush()
	base := t.TempDir()
	saved := it.Default
	defer func() { it.Default = saved }()
	n := 0
	rapid.Check(t, func(t *rapid.T) {
		n++
		dir := filepath.Join(base, strconv.Itoa(n))
		defer os.RemoveAll(dir)
		it.Default = it.NewDir(dir)
		os.MkdirAll(it.Default.LocalDir(), 0777)
		initial := rapid.SampledFrom([]string{"absent", "absent", "fresh"}).Draw(t, "initialToken")
		if initial == "fresh" {
			os.WriteFile(filepath.Join(it.Default.LocalDir(), "upload.token"), nil, 0666)
		}
		k := rapid.IntRange(2, 5).Draw(t, "starters")
		ctl := vhook.New()
		ctl.KeepLog = true
		got := make([]bool, k)
		for i := 0; i < k; i++ {
			i := i
			ctl.Go(fmt.Sprintf("starter%d", i), func() { got[i] = acquireUploadToken() })
		}
		ctl.Install()
		defer vhook.Uninstall()
		var sched []int
		for steps := 0; ctl.Live() > 0; steps++ {
			run := ctl.Runnable()
			if len(run) == 0 {
				t.Fatalf("deadlock among token starters")
			}
			if steps > 1000 {
				t.Fatalf("token acquisition does not terminate")
			}
			th := run[rapid.IntRange(0, len(run)-1).Draw(t, "thread")]
			sched = append(sched, th.ID)
			ctl.Step(th)
			if th.Panic != nil {
				t.Fatalf("starter panicked: %v\n%s", th.Panic, th.Stack)
			}
		}
		vhook.Uninstall()
		acquired := 0
		for _, g := range got {
			if g {
				acquired++
			}
		}
		want := 1
		if initial == "fresh" {
			want = 0
		}
		if acquired > 1 || acquired != want {
			t.Fatalf("initial token %s, %d starters, schedule %v: %d acquisitions, want %d", initial, k, sched, acquired, want)
		}
		// interleaved = some starter ran between another starter's first and last step
		inter := false
		first, last := map[int]int{}, map[int]int{}
		for i, id := range sched {
			if _, ok := first[id]; !ok {
				first[id] = i
			}
			last[id] = i
		}
		for a := range first {
			for i := first[a]; i <= last[a]; i++ {
				if sched[i] != a {
					inter = true
				}
			}
		}
		ids := append([]int(nil), sched...)
		sort.Ints(ids)
		vstats.Case(fmt.Sprintf("initial=%s starters=%d schedule=%v", initial, k, sched), inter, fmt.Sprintf("interleaved:%v", inter), "initial:"+initial)
	})
}
