//go:build go1.22

package main

// C17 — upload-config generation and version padding.
//
// Identifiers of the package under test this harness relies on:
//   generate, padVersions, padding{releases,maj,majmin,patch,pre}, versionsForTesting.

import (
	"fmt"
	"go/version"
	"sort"
	"strings"
	"testing"

	"golang.org/x/mod/semver"
	"golang.org/x/telemetry/internal/chartconfig"
	"golang.org/x/telemetry/internal/telemetry"
	"golang.org/x/telemetry/internal/verif/vstats"
	"pgregory.net/rapid"
)

var c17GoVersions = []string{"go1.19", "go1.20", "go1.20.1", "go1.21.0", "go1.21.5", "go1.22.0", "go1.22.3", "go1.23.0", "go1.23rc1"}

func c17Toolchain() []string {
	var out []string
	for _, v := range c17GoVersions {
		out = append(out, "v0.0.1-"+v+".linux-amd64")
	}
	return out
}

var c17ModVersions = map[string][]string{
	"golang.org/x/tools/gopls": {"v0.11.0", "v0.12.0", "v0.12.4", "v0.13.0-pre.1", "v0.13.0", "v0.14.0", "v0.14.1-pre.1", "v0.14.1", "v0.15.0-pre.2"},
	"golang.org/x/vuln":        {"v0.1.0", "v0.2.0", "v1.0.0", "v1.0.1", "v1.1.0-pre.1"},
	"example.com/tool":         {"v1.0.0", "v2.0.0"},
}

var c17Programs = map[string]string{ // program -> module
	"golang.org/x/tools/gopls":          "golang.org/x/tools/gopls",
	"golang.org/x/vuln/cmd/govulncheck": "golang.org/x/vuln",
	"example.com/tool/cmd/x":            "example.com/tool",
	"cmd/go":                            "cmd",
	"cmd/compile":                       "cmd",
}

func TestVerifC17Generate(t *testing.T) {
	defer vstats.Flush()
	defer func(v map[string][]string) { versionsForTesting = v }(versionsForTesting)
	rapid.Check(t, func(t *rapid.T) {
		versionsForTesting = map[string][]string{"golang.org/toolchain": c17Toolchain()}
		for m, vs := range c17ModVersions {
			// a fresh copy per case: generate filters the slice it is given in place
			versionsForTesting[m] = append([]string(nil), vs...)
		}
		paddings := map[string]padding{}
		var progs []string
		for p := range c17Programs {
			progs = append(progs, p)
		}
		sort.Strings(progs)
		for _, p := range progs {
			paddings[p] = padding{releases: rapid.IntRange(0, 3).Draw(t, "rel"), maj: rapid.IntRange(0, 1).Draw(t, "maj"), majmin: rapid.IntRange(0, 2).Draw(t, "majmin"),
				patch: rapid.IntRange(0, 2).Draw(t, "patch"), pre: rapid.IntRange(0, 3).Draw(t, "pre")}
		}
		n := rapid.IntRange(1, 7).Draw(t, "nrecords")
		var recs []chartconfig.ChartConfig
		minByProg := map[string][]string{}
		twins := false
		twinned := map[string]bool{}
		for i := 0; i < n; i++ {
			prog := rapid.SampledFrom(progs).Draw(t, "program")
			r := chartconfig.ChartConfig{
				Title: fmt.Sprintf("chart %d", i), Issue: []string{"https://go.dev/issue/1"}, Program: prog, Module: c17Programs[prog],
				Counter: fmt.Sprintf("c%d/x:{a,b}", i), Type: "partition",
			}
			switch rapid.IntRange(0, 7).Draw(t, "counterShape") {
			case 0:
				r.Counter = fmt.Sprintf("c%d/x", i)
			case 1:
				r.Counter = fmt.Sprintf("c%d/x:{only}", i)
			case 2:
				// a long bucket list (every expanded name is short; the expression as a whole has several KiB)
				var bs []string
				for b, nb := 0, rapid.SampledFrom([]int{50, 250, 290, 600, 2000}).Draw(t, "nbuckets"); b < nb; b++ {
					bs = append(bs, fmt.Sprintf("bucket-%04d-name", b))
				}
				r.Counter = fmt.Sprintf("c%d/x:{%s}", i, strings.Join(bs, ","))
				vstats.Label("longBucketList")
			}
			if rapid.IntRange(0, 2).Draw(t, "stack") == 0 {
				r.Type = "stack"
				r.Counter = fmt.Sprintf("s%d/bug", i)
				r.Depth = rapid.IntRange(0, 16).Draw(t, "depth") // a "stack" record without a depth is collected as a counter
			}
			if i > 0 && rapid.IntRange(0, 4).Draw(t, "sameCounterOtherKind") == 0 {
				// the same counter expression of the same program charted twice: once collected as a plain
				// counter, once as a stack (e.g. gopls/bug as a partition and with depth 16)
				o := recs[rapid.IntRange(0, i-1).Draw(t, "twinOf")]
				if twinned[o.Program+"\x00"+o.Counter] {
					o = recs[0]
				}
				if twinned[o.Program+"\x00"+o.Counter] {
					goto noTwin
				}
				twinned[o.Program+"\x00"+o.Counter] = true
				r.Program, r.Module, r.Counter = o.Program, o.Module, o.Counter
				prog = o.Program
				if o.Depth > 0 {
					r.Type, r.Depth = "partition", 0
				} else {
					r.Type, r.Depth = "stack", rapid.IntRange(1, 16).Draw(t, "twinDepth")
				}
				twins = true
			}
		noTwin:
			if rapid.IntRange(0, 3).Draw(t, "hasMin") != 0 {
				if strings.HasPrefix(prog, "cmd/") {
					r.Version = rapid.SampledFrom([]string{"go1.19", "go1.20", "go1.21", "go1.21.5", "go1.22.0", "go1.23.0", "go1.24"}).Draw(t, "minGo")
				} else {
					r.Version = rapid.SampledFrom(append([]string{"v0.0.1", "v9.0.0", "v0.12.1"}, c17ModVersions[c17Programs[prog]]...)).Draw(t, "minVer")
				}
			}
			minByProg[prog] = append(minByProg[prog], r.Version)
			recs = append(recs, r)
		}
		ucfg, err := generate(recs, paddings)
		if err != nil {
			t.Fatalf("generate: %v\nrecords: %+v", err, recs)
		}
		desc := fmt.Sprintf("records=%s", c17DescribeRecs(recs))
		byName := map[string]*telemetry.ProgramConfig{}
		for _, p := range ucfg.Programs {
			if byName[p.Name] != nil {
				t.Fatalf("program %s listed twice\n%s", p.Name, desc)
			}
			byName[p.Name] = p
		}
		severalMins := false
		for _, r := range recs {
			p := byName[r.Program]
			if p == nil {
				t.Fatalf("program %s of record %q missing from the generated config\n%s", r.Program, r.Title, desc)
			}
			inCounters, inStacks := false, false
			for _, c := range p.Counters {
				if c.Name == r.Counter {
					inCounters = true
				}
			}
			for _, c := range p.Stacks {
				if c.Name == r.Counter {
					inStacks = true
					if r.Depth > 0 && c.Depth != r.Depth {
						t.Fatalf("stack %s depth %d, record says %d", r.Counter, c.Depth, r.Depth)
					}
				}
			}
			// is the same expression of the same program also charted in the other kind?
			otherKind := false
			for _, o := range recs {
				if o.Program == r.Program && o.Counter == r.Counter && (o.Depth > 0) != (r.Depth > 0) {
					otherKind = true
				}
			}
			if r.Depth > 0 && !inStacks || r.Depth == 0 && !inCounters {
				t.Fatalf("record %q (depth %d) is not listed as a %s under %s (counter=%v stack=%v)\n%s", r.Counter, r.Depth, map[bool]string{true: "stack", false: "counter"}[r.Depth > 0], r.Program, inCounters, inStacks, desc)
			}
			if !otherKind && ((r.Depth > 0) != inStacks || (r.Depth > 0) == inCounters) {
				t.Fatalf("record %q (depth %d) listed as counter=%v stack=%v under %s\n%s", r.Counter, r.Depth, inCounters, inStacks, r.Program, desc)
			}
		}
		for prog, mins := range minByProg {
			p := byName[prog]
			toolchain := strings.HasPrefix(prog, "cmd/")
			// smallest minimum among the program's records; "" = all versions
			smallest := mins[0]
			distinct := map[string]bool{}
			for _, m := range mins {
				distinct[m] = true
				if m == "" || smallest == "" {
					smallest = ""
					continue
				}
				if toolchain && version.Compare(m, smallest) < 0 || !toolchain && semver.Compare(m, smallest) < 0 {
					smallest = m
				}
			}
			if len(distinct) > 1 {
				severalMins = true
			}
			var known []string
			if toolchain {
				for _, v := range c17GoVersions {
					if version.IsValid(v) {
						known = append(known, v)
					}
				}
			} else {
				known = c17ModVersions[c17Programs[prog]]
			}
			have := map[string]bool{}
			for _, v := range p.Versions {
				if have[v] {
					t.Fatalf("program %s: version %s listed twice\n%s", prog, v, desc)
				}
				have[v] = true
			}
			for _, v := range known {
				notOlder := smallest == "" || (toolchain && version.Compare(v, smallest) >= 0) || (!toolchain && semver.Compare(v, smallest) >= 0)
				if notOlder && !have[v] {
					t.Fatalf("program %s: known version %s is not older than the smallest minimum %q among its records %q, but is not listed (%v)\n%s", prog, v, smallest, mins, p.Versions, desc)
				}
			}
			if !toolchain {
				sorted := append([]string(nil), p.Versions...)
				semver.Sort(sorted)
				if strings.Join(sorted, " ") != strings.Join(p.Versions, " ") {
					t.Fatalf("program %s: version list not sorted: %v", prog, p.Versions)
				}
			}
		}
		vstats.Case(desc, severalMins, fmt.Sprintf("severalMins:%v", severalMins), fmt.Sprintf("sameCounterBothKinds:%v", twins))
	})
}

func c17DescribeRecs(recs []chartconfig.ChartConfig) string {
	var sb strings.Builder
	for _, r := range recs {
		c := r.Counter
		if len(c) > 60 {
			c = fmt.Sprintf("%s...(%d bytes)", c[:40], len(c))
		}
		fmt.Fprintf(&sb, "{%s %s depth=%d min=%q}", r.Program, c, r.Depth, r.Version)
	}
	return sb.String()
}

func TestVerifC17PadVersions(t *testing.T) {
	defer vstats.Flush()
	rapid.Check(t, func(t *rapid.T) {
		n := rapid.IntRange(0, 8).Draw(t, "n")
		seen := map[string]bool{}
		var versions []string
		withPre := false
		for i := 0; i < n; i++ {
			v := fmt.Sprintf("v%d.%d.%d", rapid.IntRange(0, 2).Draw(t, "maj"), rapid.IntRange(0, 3).Draw(t, "min"), rapid.IntRange(0, 3).Draw(t, "patch"))
			if rapid.IntRange(0, 2).Draw(t, "pre") == 0 {
				v += "-" + rapid.SampledFrom([]string{"pre.1", "pre.2", "pre.3", "rc.1", "pre.9", "pre.10", "rc.9", "rc.10", "2", "10", "rc-1", "pre.2.1"}).Draw(t, "preTag")
				withPre = true
			}
			switch rapid.IntRange(0, 11).Draw(t, "spelling") {
			case 0:
				v += "+incompatible" // build metadata: a real version is listed as it is spelled
			case 1:
				v += "+build.7"
			case 2:
				v = v[:strings.LastIndex(strings.SplitN(v, "-", 2)[0], ".")] // shorthand vMAJOR.MINOR
			}
			if !seen[v] {
				seen[v] = true
				versions = append(versions, v)
			}
		}
		pats := []string{"pre.1", "pre.2", "pre.3", "pre.4"}
		pd := padding{releases: rapid.IntRange(0, 4).Draw(t, "rel"), maj: rapid.IntRange(0, 2).Draw(t, "pmaj"), majmin: rapid.IntRange(0, 3).Draw(t, "pmajmin"),
			patch: rapid.IntRange(0, 3).Draw(t, "ppatch"), pre: rapid.IntRange(0, 4).Draw(t, "ppre")}
		in := append([]string(nil), versions...)
		out := padVersions(versions, pats, pd)
		if strings.Join(in, " ") != strings.Join(versions, " ") {
			t.Fatalf("padVersions modified its argument")
		}
		have := map[string]bool{}
		for _, v := range out {
			if have[v] {
				t.Fatalf("padVersions(%v, %+v) lists %s twice: %v", in, pd, v, out)
			}
			have[v] = true
			if !semver.IsValid(v) {
				t.Fatalf("padVersions produced invalid version %q", v)
			}
		}
		for _, v := range in {
			if !have[v] {
				t.Fatalf("padVersions(%v, %+v) lost the real version %s: %v", in, pd, v, out)
			}
		}
		for i := 1; i < len(out); i++ {
			if semver.Compare(out[i-1], out[i]) > 0 {
				t.Fatalf("padVersions(%v, %+v) not sorted: %v", in, pd, out)
			}
		}
		vstats.Case(fmt.Sprintf("in=%v pad=%+v out=%d", in, pd, len(out)), withPre && len(out) > len(in), fmt.Sprintf("padded:%v", len(out) > len(in)))
	})
}
