package chartconfig

// C17 — chart configuration parsing: total on arbitrary text, and
// Parse(print(records)) == records for every valid record set rendered in the
// documented syntax.

import (
	"fmt"
	"reflect"
	"strconv"
	"strings"
	"testing"

	"golang.org/x/telemetry/internal/verif/vstats"
	"pgregory.net/rapid"
)

func c17Value() *rapid.Generator[string] {
	// a field value: no '#', no newline, no braces, no leading/trailing blanks, not empty
	return rapid.Map(rapid.OneOf(
		rapid.StringMatching(`[A-Za-z0-9/:.,_ -]{1,30}`),
		rapid.SampledFrom([]string{"partition", "stack", "golang.org/x/tools/gopls", "cmd/go", "https://go.dev/issue/61038", "v0.14.0", "go1.21",
			"title: nested key", "---x", "- - -", "counter:", "é ü", "a\tb"}),
	), func(s string) string {
		s = strings.TrimSpace(s)
		if s == "" || s == "---" {
			return "x"
		}
		return s
	})
}

func c17Record(t *rapid.T) (ChartConfig, bool) {
	var c ChartConfig
	multi := false
	if rapid.Bool().Draw(t, "hasTitle") {
		c.Title = c17Value().Draw(t, "title")
	}
	if rapid.Bool().Draw(t, "hasDesc") {
		c.Description = c17Value().Draw(t, "desc")
		if rapid.IntRange(0, 24).Draw(t, "veryLongLine") == 0 {
			// a line longer than the usual I/O buffer sizes
			c.Description += " " + strings.Repeat("long ", rapid.SampledFrom([]int{820, 13107, 13108, 14000, 60000}).Draw(t, "longWords"))
			c.Description = strings.TrimSpace(c.Description)
		}
	}
	for i, n := 0, rapid.IntRange(0, 3).Draw(t, "nissue"); i < n; i++ {
		c.Issue = append(c.Issue, c17Value().Draw(t, "issue"))
	}
	if rapid.Bool().Draw(t, "hasType") {
		c.Type = rapid.SampledFrom([]string{"partition", "stack", "histogram"}).Draw(t, "type")
	}
	if rapid.Bool().Draw(t, "hasProgram") {
		c.Program = rapid.SampledFrom([]string{"cmd/go", "golang.org/x/tools/gopls", "cmd/compile"}).Draw(t, "program")
	}
	if rapid.Bool().Draw(t, "hasModule") {
		c.Module = c17Value().Draw(t, "module")
	}
	if rapid.IntRange(0, 4).Draw(t, "hasCounter") != 0 {
		name := rapid.StringMatching(`[a-z]{1,6}(/[a-z]{1,6})?`).Draw(t, "cname")
		if rapid.Bool().Draw(t, "bucketed") {
			nb := rapid.IntRange(1, 6).Draw(t, "nbuckets")
			var bs []string
			for i := 0; i < nb; i++ {
				b := rapid.StringMatching(`[a-z0-9.*<=-]{1,8}`).Draw(t, "bucket")
				if rapid.IntRange(0, 14).Draw(t, "fieldLikeBucket") == 0 {
					// a bucket that reads like a field of the record when it stands at the start of a line
					b = rapid.SampledFrom([]string{"error:timeout", "version:set", "title:x", "counter:y", "depth:3", "issue:1", "type:", "program:", "module:m", "description:d"}).Draw(t, "fieldBucket")
				}
				if rapid.IntRange(0, 30).Draw(t, "dashBucket") == 0 {
					b = "---" // legal as a bucket name; on a line of its own it would be the record separator
				}
				bs = append(bs, b)
			}
			c.Counter = name + ":{" + strings.Join(bs, ",") + "}"
			multi = nb > 1
		} else {
			c.Counter = name
			if rapid.Bool().Draw(t, "withColon") {
				c.Counter += ":" + rapid.StringMatching(`[a-z]{1,5}`).Draw(t, "single")
			}
		}
	}
	if rapid.Bool().Draw(t, "hasDepth") {
		c.Depth = rapid.IntRange(-3, 64).Draw(t, "depth")
	}
	if rapid.Bool().Draw(t, "hasError") {
		c.Error = rapid.OneOf(rapid.SampledFrom([]float64{0.1, 0.01, 1, 1e-9}), rapid.Float64Range(0, 1)).Draw(t, "error")
	}
	if rapid.Bool().Draw(t, "hasVersion") {
		c.Version = rapid.SampledFrom([]string{"v0.14.0", "v1.0.0-pre.1", "go1.21", "go1.23.1", "v2"}).Draw(t, "version")
	}
	return c, multi
}

// c17Print renders records in the documented syntax with drawn decoration.
func c17Print(t *rapid.T, recs []ChartConfig) (text string, multiline bool) {
	var sb strings.Builder
	comment := func() string {
		if rapid.IntRange(0, 3).Draw(t, "comment") == 0 {
			// (a comment starts at the '#' wherever it stands: after blanks or directly after the value, followed by a blank or not)
			return rapid.SampledFrom([]string{" # ", " # ", "#", "# ", " #", "\t#"}).Draw(t, "cstart") + rapid.SampledFrom([]string{"note", "TODO(golang/go#1): x", "{ not a brace }", "---", "title: fake"}).Draw(t, "ctext")
		}
		return ""
	}
	noise := func() {
		switch rapid.IntRange(0, 5).Draw(t, "noise") {
		case 0:
			sb.WriteString("\n")
		case 1:
			sb.WriteString("# a comment line\n")
		case 2:
			sb.WriteString("   \t # indented comment\n")
		}
	}
	for i, r := range recs {
		if i > 0 {
			sb.WriteString("---\n")
		}
		var lines []string
		add := func(key, val string) {
			sp := rapid.SampledFrom([]string{" ", "", "  ", "\t"}).Draw(t, "sp")
			lines = append(lines, key+":"+sp+val+rapid.SampledFrom([]string{"", " ", "\t"}).Draw(t, "trail")+comment()+"\n")
		}
		if r.Title != "" {
			add("title", r.Title)
		}
		if r.Description != "" {
			add("description", r.Description)
		}
		if r.Type != "" {
			add("type", r.Type)
		}
		if r.Program != "" {
			add("program", r.Program)
		}
		if r.Module != "" {
			add("module", r.Module)
		}
		if r.Depth != 0 {
			add("depth", strconv.Itoa(r.Depth))
		}
		if r.Error != 0 {
			add("error", strconv.FormatFloat(r.Error, 'g', -1, 64))
		}
		if r.Version != "" {
			add("version", r.Version)
		}
		if r.Counter != "" {
			if oi := strings.Index(r.Counter, "{"); oi >= 0 && rapid.Bool().Draw(t, "multiline") {
				// multi-line bucket list: newlines and surrounding blanks inside the braces are ignored
				buckets := strings.Split(strings.TrimSuffix(r.Counter[oi+1:], "}"), ",")
				var s strings.Builder
				s.WriteString("counter: " + r.Counter[:oi] + "{" + comment() + "\n")
				for j, b := range buckets {
					sep := ","
					if j == len(buckets)-1 {
						sep = ""
					}
					line := rapid.SampledFrom([]string{"  ", "\t", ""}).Draw(t, "indent") + b + sep + comment()
					if line == "---" {
						line = " ---" // a line consisting of exactly "---" is the record separator, also inside a list
					}
					s.WriteString(line + "\n")
					if rapid.IntRange(0, 4).Draw(t, "blankInList") == 0 {
						s.WriteString("  # comment inside the list\n")
					}
				}
				s.WriteString("}" + comment() + "\n")
				lines = append(lines, s.String())
				multiline = true
			} else {
				lines = append(lines, "counter: "+r.Counter+comment()+"\n")
			}
		}
		// issue lines keep their relative order; everything else is shuffled by drawn swaps
		for k := len(lines) - 1; k > 0; k-- {
			j := rapid.IntRange(0, k).Draw(t, "swap")
			lines[k], lines[j] = lines[j], lines[k]
		}
		issuePos := make([]int, 0, len(r.Issue))
		for range r.Issue {
			issuePos = append(issuePos, rapid.IntRange(0, len(lines)).Draw(t, "issuePos"))
		}
		// insert issue lines at non-decreasing positions
		for a := 1; a < len(issuePos); a++ {
			if issuePos[a] < issuePos[a-1] {
				issuePos[a] = issuePos[a-1]
			}
		}
		out := []string{}
		ii := 0
		for k := 0; k <= len(lines); k++ {
			for ii < len(issuePos) && issuePos[ii] == k {
				out = append(out, "issue: "+r.Issue[ii]+comment()+"\n")
				ii++
			}
			if k < len(lines) {
				out = append(out, lines[k])
			}
		}
		for _, l := range out {
			noise()
			sb.WriteString(l)
		}
		noise()
	}
	return sb.String(), multiline
}

func TestVerifC17RoundTrip(t *testing.T) {
	defer vstats.Flush()
	rapid.Check(t, func(t *rapid.T) {
		n := rapid.IntRange(0, 5).Draw(t, "nrecords")
		var recs []ChartConfig
		for i := 0; i < n; i++ {
			r, _ := c17Record(t)
			if reflect.DeepEqual(r, ChartConfig{}) {
				continue // empty records are skipped by design
			}
			recs = append(recs, r)
		}
		text, multiline := c17Print(t, recs)
		got, err := Parse([]byte(text))
		if err != nil {
			t.Fatalf("valid config rejected: %v\n%s", err, text)
		}
		if len(got) != len(recs) {
			t.Fatalf("parsed %d records, rendered %d\n%s", len(got), len(recs), text)
		}
		for i := range recs {
			if !reflect.DeepEqual(got[i], recs[i]) {
				t.Fatalf("record %d differs:\n got  %+v\n want %+v\n%s", i, got[i], recs[i], text)
			}
		}
		repeated := false
		for _, r := range recs {
			if len(r.Issue) > 1 {
				repeated = true
			}
		}
		vstats.Case(text, multiline || repeated, fmt.Sprintf("multiline:%v", multiline), fmt.Sprintf("repeatedIssue:%v", repeated), fmt.Sprintf("records:%d", len(recs)))
	})
}

func TestVerifC17ParseTotal(t *testing.T) {
	defer vstats.Flush()
	rapid.Check(t, c17ParseTotalProp)
}

// FuzzVerifC17ParseTotal: the same property under Go's coverage-guided fuzzer (thorough tier).
func FuzzVerifC17ParseTotal(f *testing.F) {
	defer vstats.Flush()
	f.Fuzz(rapid.MakeFuzz(c17ParseTotalProp))
}

func c17ParseTotalProp(t *rapid.T) {
	{
		var text string
		if rapid.Bool().Draw(t, "structured") {
			// valid text with a few hostile edits
			n := rapid.IntRange(1, 3).Draw(t, "nrecords")
			var recs []ChartConfig
			for i := 0; i < n; i++ {
				r, _ := c17Record(t)
				recs = append(recs, r)
			}
			text, _ = c17Print(t, recs)
			for i, k := 0, rapid.IntRange(1, 4).Draw(t, "nedits"); i < k && len(text) > 0; i++ {
				pos := rapid.IntRange(0, len(text)-1).Draw(t, "pos")
				ins := rapid.SampledFrom([]string{"{", "}", ",}", "\n", "#", "---\n", "counter:", ":", "\x00", "depth: x\n", "error: nan\n", "issue:\n", "{\n"}).Draw(t, "ins")
				text = text[:pos] + ins + text[pos:]
			}
		} else {
			text = rapid.StringOf(rapid.RuneFrom([]rune("abc:{},#-\n \tcounterissudph0123456789"))).Draw(t, "text")
		}
		recs, err := func() (r []ChartConfig, e error) {
			defer func() {
				if p := recover(); p != nil {
					t.Fatalf("Parse panicked: %v\ninput: %q", p, text)
				}
			}()
			return Parse([]byte(text))
		}()
		if err == nil {
			for _, r := range recs {
				if reflect.DeepEqual(r, ChartConfig{}) && len(r.Issue) == 0 {
					// an all-empty record can only come from fields set to zero values explicitly (depth: 0)
					continue
				}
			}
		}
		vstats.Case(text, err == nil && len(recs) > 0, fmt.Sprintf("accepted:%v", err == nil))
	}
}
