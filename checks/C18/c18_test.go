package storage

// C18 — Storage buckets confine, round-trip and list objects correctly
// (file-system backend).

import (
	"bytes"
	"context"
	"errors"
	"fmt"
	"io"
	"math"
	"os"
	"path/filepath"
	"sort"
	"strconv"
	"strings"
	"testing"
	"time"

	"golang.org/x/telemetry/internal/verif/vstats"
	"pgregory.net/rapid"
)

func c18Name() *rapid.Generator[string] {
	// components: short letter names; now and then an ordinary component that contains dots, dashes, a
	// percent sign, a space or a tilde (none of them is "." or ".." or contains a slash)
	comp := rapid.OneOf(rapid.StringMatching(`[a-c]{1,2}`), rapid.StringMatching(`[a-c]{1,2}`), rapid.StringMatching(`[a-c]{1,2}`),
		rapid.SampledFrom([]string{"a..b", "..a", "a..", "a.b", "...", "a-b", "a%2fb", "a b", "~a", "a.", ".a", "2024-01-01"}))
	return rapid.Custom(func(t *rapid.T) string {
		depth := rapid.IntRange(1, 3).Draw(t, "depth")
		var parts []string
		for i := 0; i < depth-1; i++ {
			parts = append(parts, comp.Draw(t, "dir"))
		}
		// leaf marker keeps objects and directories apart most of the time
		leaf := comp.Draw(t, "leaf")
		if rapid.IntRange(0, 9).Draw(t, "noMarker") != 0 {
			leaf += rapid.SampledFrom([]string{".json", ".j", "_x"}).Draw(t, "marker")
		}
		return strings.Join(append(parts, leaf), "/")
	})
}

// conflict reports whether name cannot coexist with the stored objects on a
// file system (one is a path-prefix directory of the other).
func c18Conflict(model map[string][]byte, name string) bool {
	for k := range model {
		if strings.HasPrefix(k, name+"/") || strings.HasPrefix(name, k+"/") {
			return true
		}
	}
	return false
}

func c18List(t *rapid.T, b BucketHandle, prefix string) []string {
	out, err := c18ListCtx(t, context.Background(), b, prefix)
	if err != nil {
		t.Fatalf("listing %q: %v", prefix, err)
	}
	return out
}

// c18ListCtx lists under the given context. A listing either reports an error or is complete.
func c18ListCtx(t *rapid.T, ctx context.Context, b BucketHandle, prefix string) ([]string, error) {
	it := b.Objects(ctx, prefix)
	var out []string
	for i := 0; ; i++ {
		n, err := it.Next()
		if errors.Is(err, ErrObjectIteratorDone) {
			break
		}
		if err != nil {
			return nil, err
		}
		if i > 100000 {
			t.Fatalf("listing %q does not end", prefix)
		}
		out = append(out, n)
	}
	sort.Strings(out)
	return out, nil
}

func TestVerifC18Bucket(t *testing.T) {
	defer vstats.Flush()
	base := t.TempDir()
	n := 0
	rapid.Check(t, func(t *rapid.T) {
		n++
		root := filepath.Join(base, strconv.Itoa(n))
		defer os.RemoveAll(root)
		ctx := context.Background()
		bname := rapid.SampledFrom([]string{"bkt", "local-uploaded", "a/b"}).Draw(t, "bucket")
		b, err := NewFSBucket(ctx, root, bname)
		if err != nil {
			t.Fatal(err)
		}
		// a second handle on the same bucket (the server, the worker and the copy tool each open their own): what
		// is written through one is listed and read through the other
		b2, err := NewFSBucket(ctx, root, bname)
		if err != nil {
			t.Fatal(err)
		}
		handles := []BucketHandle{b, b2}
		// a sibling bucket in the same root must never be affected
		sib, _ := NewFSBucket(ctx, root, "sibling")
		w, _ := sib.Object("keep.json").NewWriter(ctx)
		w.Write([]byte("sibling"))
		w.Close()
		model := map[string][]byte{}
		overwrote, partial, conflictSeen, copied, abandoned := false, false, false, false, false
		var trace []string
		t.Repeat(map[string]func(*rapid.T){
			"write": func(t *rapid.T) {
				name := c18Name().Draw(t, "name")
				data := rapid.SliceOfN(rapid.Byte(), 0, 40).Draw(t, "data")
				if rapid.IntRange(0, 20).Draw(t, "big") == 0 {
					data = bytes.Repeat([]byte("x"), 70000)
				}
				conflict := c18Conflict(model, name)
				wr, err := handles[rapid.IntRange(0, 1).Draw(t, "writeHandle")].Object(name).NewWriter(ctx)
				if err == nil {
					_, err = wr.Write(data)
					if cerr := wr.Close(); err == nil {
						err = cerr
					}
				}
				if err != nil {
					if !conflict {
						t.Fatalf("writing %q: %v", name, err)
					}
					conflictSeen = true
					trace = append(trace, "write!("+name+")")
					return
				}
				if conflict {
					t.Fatalf("writing %q succeeded although %v are stored (file/directory conflict)", name, keys(model))
				}
				if _, ok := model[name]; ok {
					overwrote = true
				}
				model[name] = data
				trace = append(trace, "write("+name+")")
			},
			"abandonThenWrite": func(t *rapid.T) {
				// a writer that is never closed (its process died), followed by a complete write of the same
				// object: exactly that object exists afterwards, with the bytes of the complete write
				name := c18Name().Draw(t, "name")
				if c18Conflict(model, name) {
					return
				}
				data := rapid.SliceOfN(rapid.Byte(), 0, 40).Draw(t, "data")
				if w1, err := b.Object(name).NewWriter(ctx); err == nil {
					w1.Write([]byte("partial contents of an interrupted upload"))
				}
				wr, err := b.Object(name).NewWriter(ctx)
				if err == nil {
					_, err = wr.Write(data)
					if cerr := wr.Close(); err == nil {
						err = cerr
					}
				}
				if err != nil {
					t.Fatalf("writing %q after an abandoned writer: %v", name, err)
				}
				model[name] = data
				abandoned = true
				trace = append(trace, "abandon+write("+name+")")
			},
			"overlappingReads": func(t *rapid.T) {
				// handlers keep several readers open at once, and some close a reader twice (explicitly and
				// through a deferred call): each reader still delivers its own object's bytes
				ks := keys(model)
				if len(ks) == 0 {
					t.Skip("nothing stored")
				}
				if rapid.Bool().Draw(t, "doubleCloseFirst") {
					if r, err := b.Object(ks[rapid.IntRange(0, len(ks)-1).Draw(t, "dc")]).NewReader(ctx); err == nil {
						io.ReadAll(r)
						r.Close()
						r.Close()
					}
				}
				n := rapid.IntRange(2, 4).Draw(t, "nreaders")
				type open struct {
					name string
					r    io.ReadCloser
					got  []byte
					done bool
				}
				var rs []*open
				for i := 0; i < n; i++ {
					name := ks[rapid.IntRange(0, len(ks)-1).Draw(t, "rk")]
					r, err := b.Object(name).NewReader(ctx)
					if err != nil {
						t.Fatalf("opening a reader on %q: %v", name, err)
					}
					rs = append(rs, &open{name: name, r: r})
				}
				buf := make([]byte, 7)
				for live := n; live > 0; {
					o := rs[rapid.IntRange(0, n-1).Draw(t, "turn")]
					if o.done {
						continue
					}
					k, err := o.r.Read(buf[:rapid.IntRange(1, 7).Draw(t, "chunk")])
					o.got = append(o.got, buf[:k]...)
					if err != nil || len(o.got) > len(model[o.name])+8 {
						o.done = true
						live--
					}
				}
				for _, o := range rs {
					o.r.Close()
					if !bytes.Equal(o.got, model[o.name]) {
						t.Fatalf("after %v: of %d readers open at the same time, the one on %q delivered %d bytes (%.20q...), stored are %d bytes (%.20q...)", trace, n, o.name, len(o.got), o.got, len(model[o.name]), model[o.name])
					}
				}
				trace = append(trace, fmt.Sprintf("overlappingReads(%d)", n))
			},
			"copy": func(t *rapid.T) {
				// Copy (what the worker's copy handler does) writes the destination; afterwards the two
				// objects are independent: overwriting one must not change the other
				if len(model) == 0 {
					t.Skip("nothing to copy")
				}
				ks := keys(model)
				src := ks[rapid.IntRange(0, len(ks)-1).Draw(t, "src")]
				dst := c18Name().Draw(t, "dst")
				if rapid.Bool().Draw(t, "ontoExisting") {
					dst = ks[rapid.IntRange(0, len(ks)-1).Draw(t, "dstK")]
				}
				if dst == src {
					return
				}
				if rapid.IntRange(0, 3).Draw(t, "fromAbsent") == 0 {
					// a source that was never stored: the copy reports it, and nothing is stored by it - the
					// destination stays absent, or keeps what was last written to it (the invariant below decides)
					src = c18Name().Draw(t, "absentSrc")
					if _, stored := model[src]; stored || src == dst || c18Conflict(model, src) {
						return // (a source name above or below a stored one is a directory or unreachable: not modelled)
					}
					err := Copy(ctx, b.Object(dst), b.Object(src))
					if err == nil {
						t.Fatalf("after %v: copying the never-stored %q to %q succeeded", trace, src, dst)
					}
					if !errors.Is(err, ErrObjectNotExist) {
						t.Fatalf("after %v: copying the never-stored %q: error %v does not report ErrObjectNotExist", trace, src, err)
					}
					trace = append(trace, "copyFromAbsent("+src+"->"+dst+")")
					vstats.Label("copyFromAbsent")
					return
				}
				conflict := c18Conflict(model, dst)
				err := Copy(ctx, b.Object(dst), b.Object(src))
				if err != nil {
					if !conflict {
						t.Fatalf("copying %q to %q: %v", src, dst, err)
					}
					conflictSeen = true
					return
				}
				if conflict {
					t.Fatalf("copying onto %q succeeded although %v are stored (file/directory conflict)", dst, keys(model))
				}
				model[dst] = append([]byte(nil), model[src]...)
				copied = true
				trace = append(trace, "copy("+src+"->"+dst+")")
			},
			"": func(t *rapid.T) {
				// the bucket lists exactly the stored names
				for hi, h := range handles {
					if got, want := c18List(t, h, ""), keys(model); strings.Join(got, "\n") != strings.Join(want, "\n") {
						t.Fatalf("after %v: handle %d on the bucket lists %v, stored are %v", trace, hi, got, want)
					}
				}
				// every stored object still reads back as last written
				for name, want := range model {
					r, err := b.Object(name).NewReader(ctx)
					if err != nil {
						t.Fatalf("after %v: reading %q: %v", trace, name, err)
					}
					got, err := io.ReadAll(r)
					r.Close()
					if err != nil || !bytes.Equal(got, want) {
						t.Fatalf("after %v: object %q reads back as %d bytes (%.20q...), last written were %d bytes (%.20q...)", trace, name, len(got), got, len(want), want)
					}
				}
			},
			"read": func(t *rapid.T) {
				var name string
				if len(model) > 0 && rapid.Bool().Draw(t, "existing") {
					ks := keys(model)
					name = ks[rapid.IntRange(0, len(ks)-1).Draw(t, "k")]
				} else {
					name = c18Name().Draw(t, "name")
				}
				r, err := b.Object(name).NewReader(ctx)
				want, ok := model[name]
				if !ok {
					if c18Conflict(model, name) {
						// a stored object lives below/above this name: only "no panic" is required
						if err == nil {
							r.Close()
						}
						conflictSeen = true
						return
					}
					if !errors.Is(err, ErrObjectNotExist) {
						t.Fatalf("reading absent object %q: err = %v, want ErrObjectNotExist", name, err)
					}
					trace = append(trace, "readAbsent("+name+")")
					return
				}
				if err != nil {
					t.Fatalf("reading %q: %v", name, err)
				}
				got, err := io.ReadAll(r)
				r.Close()
				if err != nil || !bytes.Equal(got, want) {
					t.Fatalf("reading %q: got %d bytes (%v), want %d bytes", name, len(got), err, len(want))
				}
				trace = append(trace, "read("+name+")")
			},
			"list": func(t *rapid.T) {
				var prefix string
				switch rapid.IntRange(0, 4).Draw(t, "prefixKind") {
				case 0:
					prefix = ""
				case 1:
					prefix = rapid.StringMatching(`[a-c]{1,2}/?`).Draw(t, "prefix1")
				case 2:
					prefix = rapid.StringMatching(`[a-c]{1,2}/[a-c]{0,2}`).Draw(t, "prefix2")
				default:
					ks := keys(model)
					cut := rapid.IntRange(0, 12).Draw(t, "cut")
					which := rapid.IntRange(0, 1000).Draw(t, "which")
					prefix = "a"
					if len(ks) > 0 {
						k := ks[which%len(ks)]
						prefix = k[:min(cut, len(k))]
					}
				}
				// the handlers list under request contexts, which may be cancelled or past their deadline:
				// such a listing may fail, but it must not silently come out short
				lctx := context.Background()
				switch rapid.IntRange(0, 5).Draw(t, "listContext") {
				case 0:
					c, cancel := context.WithCancel(context.Background())
					cancel()
					lctx = c
				case 1:
					c, cancel := context.WithDeadline(context.Background(), time.Unix(1, 0))
					defer cancel()
					lctx = c
				}
				got, lerr := c18ListCtx(t, lctx, handles[rapid.IntRange(0, 1).Draw(t, "listHandle")], prefix)
				if lerr != nil {
					if lctx.Err() == nil {
						t.Fatalf("listing %q: %v", prefix, lerr)
					}
					trace = append(trace, fmt.Sprintf("list(%q)=error under a done context", prefix))
					return
				}
				var want []string
				for k := range model {
					if strings.HasPrefix(k, prefix) {
						want = append(want, k)
					}
				}
				sort.Strings(want)
				if strings.Join(got, "\n") != strings.Join(want, "\n") {
					t.Fatalf("listing with prefix %q = %v, stored names with that prefix are %v", prefix, got, want)
				}
				if len(want) > 0 && len(want) < len(model) {
					partial = true
				}
				trace = append(trace, fmt.Sprintf("list(%q)=%d", prefix, len(got)))
			},
		})
		// the sibling bucket is untouched and nothing was created outside the bucket directory
		ents, _ := os.ReadDir(root)
		for _, e := range ents {
			top := strings.Split(bname, "/")[0]
			if e.Name() != top && e.Name() != "sibling" {
				t.Fatalf("unexpected entry %q next to the bucket directory", e.Name())
			}
		}
		if got := c18List(t, sib, ""); len(got) != 1 || got[0] != "keep.json" {
			t.Fatalf("sibling bucket changed: %v", got)
		}
		vstats.Case(fmt.Sprintf("bucket=%s ops=%v", bname, trace), partial && overwrote, fmt.Sprintf("partial:%v", partial),
			fmt.Sprintf("overwrote:%v", overwrote), fmt.Sprintf("conflict:%v", conflictSeen), fmt.Sprintf("copied:%v", copied), fmt.Sprintf("abandonedWriter:%v", abandoned))
	})
}

func keys(m map[string][]byte) []string {
	var ks []string
	for k := range m {
		ks = append(ks, k)
	}
	sort.Strings(ks)
	return ks
}

// TestVerifC18ServiceNames: every object name the upload, merge and chart
// services construct resolves inside its bucket's directory, round-trips and
// is listed under its date prefix.
func TestVerifC18ServiceNames(t *testing.T) {
	defer vstats.Flush()
	base := t.TempDir()
	ctx := context.Background()
	bi, err := NewFSBucket(ctx, base, "svc")
	if err != nil {
		t.Fatal(err)
	}
	b := bi.(*FSBucket)
	bdir, _ := filepath.Abs(filepath.Join(base, "svc"))
	rapid.Check(t, func(t *rapid.T) {
		day := time.Date(rapid.IntRange(1, 9999).Draw(t, "y"), time.Month(rapid.IntRange(1, 12).Draw(t, "m")), rapid.IntRange(1, 28).Draw(t, "d"), 0, 0, 0, 0, time.UTC)
		week := day.Format("2006-01-02")
		x := rapid.OneOf(
			rapid.Float64Range(0, 1),
			rapid.SampledFrom([]float64{math.SmallestNonzeroFloat64, math.MaxFloat64, -math.MaxFloat64, -0.5, 1e-320, 1e21, 123456789.125, -1, 1}),
			rapid.Float64(),
		).Draw(t, "x")
		if x == 0 || math.IsNaN(x) || math.IsInf(x, 0) {
			t.Skip("not a valid report X")
		}
		end := day.AddDate(0, 0, rapid.IntRange(0, 400).Draw(t, "span"))
		var chartName string
		if end.Equal(day) {
			chartName = week + ".json"
		} else {
			chartName = week + "_" + end.Format("2006-01-02") + ".json"
		}
		names := map[string]string{
			"upload": fmt.Sprintf("%s/%g.json", week, x), // telemetrygodev: Week/X.json
			"merge":  week + ".json",                     // worker: <date>.json
			"chart":  chartName,                          // worker: <date>.json or <start>_<end>.json
		}
		for svc, name := range names {
			o := b.Object(name).(*FSObject)
			abs, _ := filepath.Abs(o.Filename())
			rel, err := filepath.Rel(bdir, abs)
			if err != nil || rel == ".." || strings.HasPrefix(rel, ".."+string(filepath.Separator)) || filepath.IsAbs(rel) {
				t.Fatalf("%s object %q resolves to %s, outside the bucket directory %s", svc, name, abs, bdir)
			}
			if filepath.ToSlash(rel) != name {
				t.Fatalf("%s object %q resolves to %q inside the bucket", svc, name, rel)
			}
			w, err := o.NewWriter(ctx)
			if err != nil {
				t.Fatalf("%s object %q: %v", svc, name, err)
			}
			w.Write([]byte(name))
			if err := w.Close(); err != nil {
				t.Fatal(err)
			}
			r, err := o.NewReader(ctx)
			if err != nil {
				t.Fatal(err)
			}
			got, _ := io.ReadAll(r)
			r.Close()
			if string(got) != name {
				t.Fatalf("%s object %q does not round-trip", svc, name)
			}
			found := false
			it := b.Objects(ctx, week)
			for {
				n, err := it.Next()
				if err != nil {
					break
				}
				if n == name {
					found = true
				}
			}
			if !found {
				t.Fatalf("%s object %q is not listed under prefix %q", svc, name, week)
			}
			os.Remove(o.Filename())
		}
		os.RemoveAll(filepath.Join(bdir, week))
		vstats.Case(fmt.Sprintf("week=%s x=%g chart=%s", week, x, chartName), true, "service-names")
	})
}
