package main

// C19 — gotelemetry on/local/off/clean/env touch exactly what they promise.
//
// Identifiers of the package under test this harness relies on:
//   runOn, runLocal, runOff, runClean, runEnv; the test binary re-executes
//   itself as the real command through the package's own TestMain
//   (GOTELEMETRY_RUN_AS_MAIN), so the "built binary" is built from the current tree.

import (
	"bytes"
	"fmt"
	"os"
	"os/exec"
	"path/filepath"
	"sort"
	"strconv"
	"strings"
	"testing"
	"time"

	"golang.org/x/telemetry/internal/telemetry"
	"golang.org/x/telemetry/internal/verif/vsnap"
	"golang.org/x/telemetry/internal/verif/vstats"
	"pgregory.net/rapid"
)

var c19LocalNames = []string{
	"x.v1.count", "gopls@v0.14.2-go1.22.1-linux-amd64-2024-01-01.v1.count", "x.v2.count", "x.v1.count.bak", "x.count", "v1.count", "xv1.count",
	"2024-01-01.json", "local.2024-01-01.json", "a.json.lock", "a.json.tmp", "json", "x.JSON", "ajson", "weekends", "upload.token", "notes.txt", ".json", "x.v1.count.json",
}
var c19UploadNames = []string{"2024-01-01.json", "2023-12-25.json", "x.json.lock", "x.v1.count", "notes", "y.jsonl", "z.json"}

// c19MustGo: the data-file patterns ("count files end in .v1.count, reports end in .json").
func c19MustGo(rel string) bool {
	dir, name := filepath.Split(rel)
	switch dir {
	case "local/":
		return strings.HasSuffix(name, ".v1.count") || strings.HasSuffix(name, ".json")
	case "upload/":
		return strings.HasSuffix(name, ".json")
	}
	return false
}

func c19Populate(t *rapid.T, tdir string) (mustGo, nearMiss int) {
	write := func(rel string) {
		p := filepath.Join(tdir, rel)
		os.MkdirAll(filepath.Dir(p), 0777)
		os.WriteFile(p, []byte("content of "+rel+rapid.StringMatching(`[a-z]{0,5}`).Draw(t, "content")), 0666)
		if c19MustGo(rel) {
			mustGo++
		} else {
			nearMiss++
		}
	}
	if rapid.IntRange(0, 9).Draw(t, "emptyDir") == 0 {
		return
	}
	// one of the two data directories may be something else than a listable directory (a stray regular file of
	// that name): the other one is still cleaned
	blocked := rapid.SampledFrom([]string{"", "", "", "", "", "local", "upload"}).Draw(t, "notADirectory")
	if blocked != "" {
		os.WriteFile(filepath.Join(tdir, blocked), []byte("a regular file"), 0666)
		nearMiss++
		vstats.Label("dataDirIsAFile:" + blocked)
	}
	for _, n := range c19LocalNames {
		if blocked != "local" && rapid.IntRange(0, 2).Draw(t, "local:"+n) == 0 {
			write("local/" + n)
		}
	}
	for _, n := range c19UploadNames {
		if blocked != "upload" && rapid.IntRange(0, 2).Draw(t, "upload:"+n) == 0 {
			write("upload/" + n)
		}
	}
	if blocked != "" {
		return
	}
	if rapid.IntRange(0, 3).Draw(t, "dataLikeDirs") == 0 {
		// non-empty directories whose names look like data files: they cannot be removed (and are neither a
		// counter file nor a report); the files sorting after them must still go
		write("local/0000-00-00.json/keep.txt")
		write("local/aaa.v1.count/keep.txt")
		write("upload/0000-00-00.json/keep.txt")
		vstats.Label("dataLikeDirs")
	}
	// unrelated entries right next to the mode file, with names a careless implementation might use itself
	for _, n := range []string{"mode.tmp", "mode.bak", "mode.lock", "mode~", ".mode.swp", "mode.new", "mode.tmp/keep.txt"} {
		if rapid.IntRange(0, 5).Draw(t, "sibling:"+n) == 0 {
			if strings.HasSuffix(n, "/keep.txt") {
				if _, err := os.Stat(filepath.Join(tdir, "mode.tmp")); err == nil {
					continue // already a file
				}
			}
			write(n)
		}
	}
	if rapid.Bool().Draw(t, "subdirs") {
		write("local/sub/inner.json")
		write("local/sub/inner.v1.count")
		write("upload/old/2020-01-01.json")
		write("debug/prog-v1-go1.22-20240101-1.log")
		write("debug/x.json")
		write("other.json")
	}
	return
}

func c19ModeContent(t *rapid.T) (content string, present bool) {
	k := rapid.SampledFrom([]string{"on", "on-date", "local", "local-date", "off", "off-date", "missing", "garbage", "empty", "on-baddate", "future-date", "today-date"}).Draw(t, "modeKind")
	switch k {
	case "future-date", "today-date":
		// a mode recorded with a date after (or at) the current one: a clock that was wrong once, or a hand-edited file
		m := rapid.SampledFrom([]string{"on", "local", "off"}).Draw(t, "datedMode")
		d := time.Now().UTC()
		if k == "future-date" {
			d = d.AddDate(0, 0, rapid.SampledFrom([]int{1, 2, 8, 400, 30000}).Draw(t, "daysAhead"))
		}
		return m + " " + d.Format("2006-01-02"), true
	case "on":
		return "on", true
	case "on-date":
		return "on 2023-04-05", true
	case "local":
		return "local\n", true
	case "local-date":
		return "local 2022-02-02", true
	case "off":
		return "off", true
	case "off-date":
		return "off 2021-01-01\n", true
	case "garbage":
		return rapid.SampledFrom([]string{"On", "enabled", "o n", "\x00"}).Draw(t, "garbage"), true
	case "empty":
		return "", true
	case "on-baddate":
		return "on someday", true
	}
	return "", false
}

type c19Runner func(cmd string) (stdout string)

// c19Step runs one command through run and checks the directory.
func c19Step(t *rapid.T, tdir string, cmd string, run c19Runner) {
	d := telemetry.NewDir(tdir)
	before := vsnap.Take(tdir)
	// the mode the file records, read independently of the library: the first word of the file's text
	// (surrounding white space, a trailing newline included, is not part of it; no file: the default, local; no word: none)
	modeBefore := "local" // what a missing mode file means
	if b, err := os.ReadFile(filepath.Join(tdir, "mode")); err == nil {
		modeBefore = "" // an empty file records no mode
		if fs := strings.Fields(string(b)); len(fs) > 0 {
			modeBefore = fs[0]
		}
	}
	t0 := time.Now().UTC()
	out := run(cmd)
	t1 := time.Now().UTC()
	after := vsnap.Take(tdir)
	diff := vsnap.Diff(before, after, nil)
	switch cmd {
	case "on", "local", "off":
		if modeBefore == cmd {
			if len(diff) > 0 {
				t.Fatalf("gotelemetry %s with mode already %q changed the directory: %v", cmd, modeBefore, diff)
			}
			return
		}
		for _, x := range diff {
			if p := strings.Fields(x)[1]; p != "mode" {
				t.Fatalf("gotelemetry %s changed something other than the mode file: %v", cmd, diff)
			}
		}
		m, asof := d.Mode()
		ok := false
		for _, day := range []string{t0.Format("2006-01-02"), t1.Format("2006-01-02")} {
			if m == cmd && !asof.IsZero() && asof.Format("2006-01-02") == day {
				ok = true
			}
		}
		if !ok {
			b, _ := os.ReadFile(filepath.Join(tdir, "mode"))
			t.Fatalf("after gotelemetry %s (mode was %q) a library read reports (%q, %v); mode file %q; want (%q, today)", cmd, modeBefore, m, asof, b, cmd)
		}
	case "env":
		if len(diff) > 0 {
			t.Fatalf("gotelemetry env changed the directory: %v", diff)
		}
		if out != "" {
			m, asof := d.Mode()
			if !strings.Contains(out, fmt.Sprintf("mode: %s %s\n", m, asof)) {
				t.Fatalf("gotelemetry env printed %q, library read is (%q, %v)", out, m, asof)
			}
		}
	case "clean":
		var paths []string
		for p := range before {
			paths = append(paths, p)
		}
		sort.Strings(paths) // a deterministic first failure
		for _, p := range paths {
			v := before[p]
			_, still := after[p]
			switch {
			case v == "dir":
				if !still {
					t.Fatalf("gotelemetry clean removed directory %s", p)
				}
			case c19MustGo(p) && still:
				t.Fatalf("gotelemetry clean left the data file %s", p)
			case !c19MustGo(p) && (!still || after[p] != v):
				t.Fatalf("gotelemetry clean removed or changed %s, which is neither a counter file nor a report", p)
			}
		}
		for p := range after {
			if _, ok := before[p]; !ok {
				t.Fatalf("gotelemetry clean created %s", p)
			}
		}
	}
}

func c19Silently(f func()) {
	devnull, _ := os.OpenFile(os.DevNull, os.O_WRONLY, 0)
	so, se := os.Stdout, os.Stderr
	os.Stdout, os.Stderr = devnull, devnull
	defer func() { os.Stdout, os.Stderr = so, se; devnull.Close() }()
	f()
}

var c19Seq int

// c19Done is passed to a runner after the last command of a case (it restores what the runner changed).
const c19Done = "\x00done"

// c19Zones lists the TZ settings the command is run under: unset, UTC, and the zones furthest from UTC
// that the system's zone database has (without a database only the first two).
func c19Zones() []string {
	zones := []string{"", "UTC"}
	for _, z := range []string{"Pacific/Kiritimati", "Etc/GMT+12", "Asia/Kolkata"} {
		if _, err := time.LoadLocation(z); err == nil {
			zones = append(zones, z, z)
		}
	}
	return zones
}

func c19Case(t *rapid.T, base string, maxCmds int, mkRunner func(root, tdir string) c19Runner) {
	c19Seq++
	root := filepath.Join(base, strconv.Itoa(c19Seq))
	tdir := filepath.Join(root, "go", "telemetry")
	defer os.RemoveAll(root)
	os.MkdirAll(root, 0777)
	mustGo, nearMiss := 0, 0
	if rapid.IntRange(0, 9).Draw(t, "noTelemetryDir") != 0 {
		os.MkdirAll(tdir, 0777)
		mustGo, nearMiss = c19Populate(t, tdir)
		if content, present := c19ModeContent(t); present {
			os.WriteFile(filepath.Join(tdir, "mode"), []byte(content), 0666)
			if rapid.IntRange(0, 5).Draw(t, "modeIsSymlink") == 0 {
				// the mode file is a symbolic link to a file kept elsewhere (a dotfiles directory under version control)
				target := filepath.Join(root, "dotfiles", "go-telemetry-mode")
				os.MkdirAll(filepath.Dir(target), 0777)
				os.Rename(filepath.Join(tdir, "mode"), target)
				os.Symlink(target, filepath.Join(tdir, "mode"))
				vstats.Label("modeFileIsSymlink")
			}
		}
	}
	run := mkRunner(root, tdir)
	defer run(c19Done)
	n := rapid.IntRange(1, maxCmds).Draw(t, "ncmds")
	var cmds []string
	for i := 0; i < n; i++ {
		cmd := rapid.SampledFrom([]string{"on", "local", "off", "clean", "clean", "env"}).Draw(t, "cmd")
		cmds = append(cmds, cmd)
		c19Step(t, tdir, cmd, run)
	}
	hasClean := false
	for _, c := range cmds {
		if c == "clean" {
			hasClean = true
		}
	}
	var names []string
	for p := range vsnap.Take(tdir) {
		names = append(names, p)
	}
	sort.Strings(names)
	vstats.Case(fmt.Sprintf("mustGo=%d nearMiss=%d cmds=%v left=%v", mustGo, nearMiss, cmds, names), hasClean && mustGo > 0 && nearMiss > 0,
		fmt.Sprintf("clean:%v", hasClean), fmt.Sprintf("hasData:%v", mustGo > 0))
}

// TestVerifC19InProcess calls the run* functions with telemetry.Default redirected.
func TestVerifC19InProcess(t *testing.T) {
	defer vstats.Flush()
	base := t.TempDir()
	saved := telemetry.Default
	defer func() { telemetry.Default = saved }()
	rapid.Check(t, func(t *rapid.T) {
		c19Case(t, base, 6, func(root, tdir string) c19Runner {
			telemetry.Default = telemetry.NewDir(tdir)
			// the process's local zone: in one of the two far zones the local date differs from the UTC date
			savedLocal := time.Local
			if h := rapid.SampledFrom([]int{0, 0, 14, -12, 5}).Draw(t, "localZoneHours"); h != 0 {
				time.Local = time.FixedZone("verif", h*3600)
			}
			return func(cmd string) string {
				if cmd == c19Done {
					time.Local = savedLocal
					return ""
				}
				c19Silently(func() {
					switch cmd {
					case "on":
						runOn(nil)
					case "local":
						runLocal(nil)
					case "off":
						runOff(nil)
					case "clean":
						runClean(nil)
					case "env":
						runEnv(nil)
					}
				})
				return ""
			}
		})
	})
}

// TestVerifC19Binary runs the real command (this test binary re-executed as
// main) with the user configuration directory redirected.
func TestVerifC19Binary(t *testing.T) {
	defer vstats.Flush()
	base := t.TempDir()
	exe, err := os.Executable()
	if err != nil {
		t.Fatal(err)
	}
	rapid.Check(t, func(t *rapid.T) {
		c19Case(t, base, 4, func(root, tdir string) c19Runner {
			// the zone of the command's process: in one of the two far zones the local date differs from the UTC date
			tz := rapid.SampledFrom(c19Zones()).Draw(t, "TZ")
			return func(cmd string) string {
				if cmd == c19Done {
					return ""
				}
				c := exec.Command(exe, cmd)
				c.Env = append(os.Environ(), "GOTELEMETRY_RUN_AS_MAIN=1", "XDG_CONFIG_HOME="+root, "HOME="+root, "VERIF_STATS=")
				if tz != "" {
					c.Env = append(c.Env, "TZ="+tz)
				}
				var stdout, stderr bytes.Buffer
				c.Stdout, c.Stderr = &stdout, &stderr
				if err := c.Run(); err != nil {
					t.Fatalf("gotelemetry %s: %v\n%s", cmd, err, stderr.String())
				}
				return stdout.String()
			}
		})
	})
}
