//go:build verif

package counter

// Export shim (overlay only, build tag verif): lets verification tests living
// in other packages drive the unexported counter-file layer.

import "time"

type VFile struct{ f *file }

func VNewFile() *VFile { return &VFile{f: &file{}} }

// Rotate1 is what Open(false) does: open or rotate the file once.
func (v *VFile) Rotate1() time.Time { return v.f.rotate1() }

func (v *VFile) Counter(name string) *Counter { return &Counter{name: name, file: v.f} }

func (v *VFile) Stack(name string, depth int) *StackCounter {
	return &StackCounter{name: name, depth: depth, file: v.f}
}

// Path returns the path of the currently mapped file ("" if none).
func (v *VFile) Path() string {
	if m := v.f.current.Load(); m != nil {
		return m.f.Name()
	}
	return ""
}

func (v *VFile) Err() error { return v.f.err }

func (v *VFile) Close() {
	if m := v.f.current.Load(); m != nil {
		m.close()
	}
}
