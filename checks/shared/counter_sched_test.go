package counter

// Shared helpers of the schedule-driven counter checks (C03, C04, C05): case
// environment with replaced unmapping, persisted-value reader, schedule runner.

import (
	"fmt"
	"os"
	"path/filepath"
	"strconv"
	"strings"
	"sync/atomic"
	"syscall"
	"unsafe"

	"golang.org/x/telemetry/internal/mmap"
	"golang.org/x/telemetry/internal/telemetry"
	"golang.org/x/telemetry/internal/verif/vformat"
	"golang.org/x/telemetry/internal/verif/vhook"
	"pgregory.net/rapid"
)

const c03MaxExtra = 1<<33 - 1

type c03Closed struct {
	lo, hi uintptr
	data   []byte
	step   int               // scheduler step during which the mapping was closed
	reg    map[*Counter]bool // counters that were on their file's list when the mapping was closed
}

// c03Env is the per-case environment shared with C04/C05 style harnesses.
type c03Env struct {
	dir     string
	poison  bool
	closed  []c03Closed
	stepNow int     // current scheduler step (set by the schedule runner)
	files   []*file // files whose counter lists are recorded when a mapping is closed
	// walked[thread] is the set of counters that were on the list when that thread last started
	// file.invalidateCounters (the walk sees exactly these); curThread is the thread running now.
	// Both are maintained by the schedule runner's step hook (noteStep); without them the list at
	// the time of closing is used.
	walked    map[int]map[*Counter]bool
	walkHead  string
	curThread int
	oldUnmap  func(*mmap.Data) error
}

func c03Setup(base string, seq int, poison bool) *c03Env {
	CrashOnBugs = false
	e := &c03Env{dir: filepath.Join(base, strconv.Itoa(seq)), poison: poison, oldUnmap: munmap}
	telemetry.Default = telemetry.NewDir(e.dir)
	os.MkdirAll(telemetry.Default.LocalDir(), 0777)
	os.WriteFile(filepath.Join(telemetry.Default.LocalDir(), "weekends"), []byte("3\n"), 0666)
	os.WriteFile(filepath.Join(e.dir, "mode"), []byte("local 2020-01-01"), 0666)
	munmap = func(d *mmap.Data) error {
		if d == nil || len(d.Data) == 0 {
			return nil
		}
		full := d.Data[:cap(d.Data)]
		reg := e.walked[e.curThread]
		delete(e.walked, e.curThread) // one walk per closed mapping
		if reg == nil {
			reg = e.listed()
		}
		e.closed = append(e.closed, c03Closed{uintptr(unsafePointer(full)), uintptr(unsafePointer(full)) + uintptr(len(full)), full, e.stepNow, reg})
		if e.poison {
			// keep the address range reserved but make every access fault: a use after unmap
			// becomes deterministic instead of sometimes hitting a recycled mapping
			syscall.Mprotect(full, syscall.PROT_NONE)
		}
		// deferred mode: the old mapping stays usable until the end of the case
		return nil
	}
	return e
}

// listed returns the counters that are on the lists of e.files now.
func (e *c03Env) listed() map[*Counter]bool {
	reg := map[*Counter]bool{}
	for _, f := range e.files {
		if head := f.counters.Load(); head != nil {
			for c := head; c != nil && c != &f.end; c = c.next.Load() {
				reg[c] = true
			}
		}
	}
	return reg
}

// noteStep is called by the step hook before thread th performs the operation at th.Site.
func (e *c03Env) noteStep(step int, th *vhook.Thread) {
	e.stepNow = step
	e.curThread = th.ID
	if strings.Contains(th.Site, ":invalidateCounters:atomic.Load") {
		if e.walkHead == "" {
			e.walkHead = th.Site // the first load of the function is the load of the list head
		}
		if th.Site == e.walkHead {
			if e.walked == nil {
				e.walked = map[int]map[*Counter]bool{}
			}
			e.walked[th.ID] = e.listed()
		}
	}
}

func (e *c03Env) teardown(files ...*file) {
	munmap = e.oldUnmap
	for _, f := range files {
		if f == nil {
			continue
		}
		if m := f.current.Load(); m != nil {
			m.close()
		}
	}
	for _, c := range e.closed {
		syscall.Munmap(c.data)
	}
	os.RemoveAll(e.dir)
}

func (e *c03Env) inClosed(addr uintptr) bool {
	return e.closedAt(addr) >= 0
}

// closedEntry returns the record of the closed mapping containing addr, or nil.
func (e *c03Env) closedEntry(addr uintptr) *c03Closed {
	for i := range e.closed {
		if addr >= e.closed[i].lo && addr < e.closed[i].hi {
			return &e.closed[i]
		}
	}
	return nil
}

// closedAt returns the scheduler step at which the mapping containing addr was closed, or -1.
func (e *c03Env) closedAt(addr uintptr) int {
	for _, c := range e.closed {
		if addr >= c.lo && addr < c.hi {
			return c.step
		}
	}
	return -1
}

// c03Persisted sums every counter over all counter files of the directory (independent decoder).
func c03Persisted(t *rapid.T, dir string, when string) map[string]uint64 {
	out := map[string]uint64{}
	ents, _ := os.ReadDir(dir)
	for _, ent := range ents {
		if !strings.HasSuffix(ent.Name(), ".count") {
			continue
		}
		data, err := os.ReadFile(filepath.Join(dir, ent.Name()))
		if err != nil {
			continue
		}
		if len(data) < vformat.Page {
			continue // a file that is being created
		}
		f, err := vformat.Decode(data)
		if err != nil {
			t.Fatalf("%s: counter file %s is not well-formed: %v", when, ent.Name(), err)
		}
		for k, v := range f.Count {
			if out[k]+v < out[k] {
				out[k] = ^uint64(0)
			} else {
				out[k] += v
			}
		}
	}
	return out
}

// c03Schedule runs the controller's threads under a generated schedule and
// calls check after every step. It returns the number of context switches.
// c03StepHook, if set, is called with the number of the scheduler step about to run and the thread taking it.
var c03StepHook func(step int, th *vhook.Thread)

// c03PreemptSite: the victim of the third schedule shape is held back before every compare-and-swap and
// before it (re-)reads the allocation limit of the shared file, i.e. wherever a retry loop samples shared state.
func c03PreemptSite(site string) bool {
	return strings.Contains(site, "CompareAndSwap") || strings.Contains(site, ":load32:")
}

func c03Schedule(t *rapid.T, ctl *vhook.Controller, maxSteps int, check func(step int, th *vhook.Thread)) (switches int, trace []int) {
	// two schedule shapes: drawn (thread, burst) pairs, and a priority order with a few change points
	pct := rapid.Bool().Draw(t, "pctSchedule")
	var prio []int
	var changeAt map[int]bool
	if pct {
		n := len(ctl.Threads)
		prio = make([]int, n)
		for i := range prio {
			prio[i] = i
		}
		for i := n - 1; i > 0; i-- {
			j := rapid.IntRange(0, i).Draw(t, "prio")
			prio[i], prio[j] = prio[j], prio[i]
		}
		changeAt = map[int]bool{}
		for i, d := 0, rapid.IntRange(0, 3).Draw(t, "changePoints"); i < d; i++ {
			changeAt[rapid.IntRange(1, 400).Draw(t, "changeAt")] = true
		}
	}
	// Third shape (a variant of the first): one thread is the victim; whenever it is about to perform a
	// compare-and-swap the other threads usually move first, for a long burst, so that its retry loops
	// meet a changed word as often as possible (lost races several times in a row within one call).
	victim := -1
	if !pct && rapid.IntRange(0, 2).Draw(t, "casAdversary") == 0 {
		victim = rapid.IntRange(0, len(ctl.Threads)-1).Draw(t, "victim")
	}
	last := -1
	steps := 0
	for ctl.Live() > 0 {
		run := ctl.Runnable()
		if len(run) == 0 {
			t.Fatalf("deadlock: %d live threads, none runnable (trace tail %v)", ctl.Live(), tail(trace, 30))
		}
		var th *vhook.Thread
		burst := 1
		if pct {
			if changeAt[steps] {
				// demote the currently highest runnable thread
				for pi, id := range prio {
					if !ctl.Threads[id].Done {
						prio = append(append(prio[:pi:pi], prio[pi+1:]...), id)
						break
					}
				}
			}
			for _, id := range prio {
				for _, r := range run {
					if r.ID == id && th == nil {
						th = r
					}
				}
			}
			if th == nil {
				th = run[0] // a thread added while the schedule was running (lowest priority)
			}
		} else {
			th = run[rapid.IntRange(0, len(run)-1).Draw(t, "thread")]
			burst = rapid.SampledFrom([]int{1, 1, 2, 3, 5, 8, 20, 60}).Draw(t, "burst")
			if th.ID == victim && len(run) > 1 && c03PreemptSite(th.Site) && rapid.IntRange(0, 3).Draw(t, "preempt") != 0 {
				var others []*vhook.Thread
				for _, r := range run {
					if r.ID != victim {
						others = append(others, r)
					}
				}
				th = others[rapid.IntRange(0, len(others)-1).Draw(t, "preemptBy")]
				burst = rapid.SampledFrom([]int{5, 20, 60, 150, 400}).Draw(t, "preemptBurst")
			}
		}
		for b := 0; b < burst && !th.Done; b++ {
			if th.ID != last {
				switches++
				last = th.ID
			}
			if c03StepHook != nil {
				c03StepHook(steps+1, th)
			}
			ctl.Step(th)
			steps++
			trace = append(trace, th.ID)
			check(steps, th)
			if steps > maxSteps {
				t.Fatalf("step budget exceeded (%d scheduler steps): some operation does not terminate; last sites: %s", steps, th.Site)
			}
			stillRunnable := false
			for _, r := range ctl.Runnable() {
				if r == th {
					stillRunnable = true
				}
			}
			if !stillRunnable {
				break // finished or blocked: it cannot continue its burst
			}
		}
	}
	return switches, trace
}

func tail(s []int, n int) []int {
	if len(s) > n {
		return s[len(s)-n:]
	}
	return s
}

func unsafePointer(b []byte) unsafe.Pointer { return unsafe.Pointer(&b[0]) }

func shortName(s string) string {
	if len(s) > 12 {
		return s[:12] + fmt.Sprintf("...(%d)", len(s))
	}
	return s
}

// unsafePointer2 returns the address of a counter cell.
func unsafePointer2(p *atomic.Uint64) unsafe.Pointer { return unsafe.Pointer(p) }
