//go:build verif

package upload

// Export shim (overlay only, build tag verif): lets verification tests in
// other packages run the real uploader with a given configuration, bypassing
// only the configuration download.

import (
	"io"
	"log"
	"time"

	"golang.org/x/telemetry/internal/telemetry"
)

// VRun runs one uploader over dir, exactly as Run does after newUploader.
func VRun(dir string, cfg *telemetry.UploadConfig, configVersion, uploadURL string, start time.Time) error {
	u := &uploader{
		config:          cfg,
		configVersion:   configVersion,
		dir:             telemetry.NewDir(dir),
		uploadServerURL: uploadURL,
		startTime:       RunConfig{StartTime: start}.startTime(), // as newUploader does
		logger:          log.New(io.Discard, "", 0),
	}
	return u.Run()
}
