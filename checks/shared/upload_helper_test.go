package upload

// Shared in-package helpers of the internal/upload checks (C01, C02, C07, C08, C09).
//
// Identifiers of the package under test these rely on:
//   uploader{config,configVersion,dir,uploadServerURL,startTime,logger}, (*uploader).Run

import (
	"fmt"
	"io"
	"log"
	"net/http"
	"net/http/httptest"
	"os"
	"path/filepath"
	"strconv"
	"strings"
	"sync"
	"time"

	"golang.org/x/telemetry/internal/telemetry"
	"golang.org/x/telemetry/internal/verif/vmodel"
	"golang.org/x/telemetry/internal/verif/vstats"
	"pgregory.net/rapid"
)

type vuRequest struct {
	Method string
	Path   string // e.g. /2024-03-06
	Body   []byte
}

// vuServer is an in-process upload server that records every request.
type vuServer struct {
	srv    *httptest.Server
	mu     sync.Mutex
	reqs   []vuRequest
	Status func(r vuRequest) int // nil = always 200
}

func vuNewServer() *vuServer {
	s := &vuServer{}
	s.srv = httptest.NewServer(http.HandlerFunc(func(w http.ResponseWriter, r *http.Request) {
		body, _ := io.ReadAll(r.Body)
		req := vuRequest{Method: r.Method, Path: r.URL.Path, Body: body}
		s.mu.Lock()
		s.reqs = append(s.reqs, req)
		st := 200
		if s.Status != nil {
			st = s.Status(req)
		}
		s.mu.Unlock()
		w.WriteHeader(st)
	}))
	return s
}

func (s *vuServer) URL() string { return s.srv.URL }
func (s *vuServer) Close()      { s.srv.Close() }

// Take returns and clears the recorded requests.
func (s *vuServer) Take() []vuRequest {
	s.mu.Lock()
	defer s.mu.Unlock()
	r := s.reqs
	s.reqs = nil
	return r
}

var vuSeq int

// vuFreshDir creates a new empty telemetry directory under base.
func vuFreshDir(base string) string {
	vuSeq++
	d := filepath.Join(base, "t"+strconv.Itoa(vuSeq))
	if err := os.MkdirAll(filepath.Join(d, "local"), 0777); err != nil {
		panic(err)
	}
	return d
}

// vuWriteFiles writes the scenario's counter files into dir/local.
func vuWriteFiles(dir string, files []*vmodel.CountFile) {
	for _, f := range files {
		if err := os.WriteFile(filepath.Join(dir, "local", f.Base), f.Bytes, 0666); err != nil {
			panic(err)
		}
	}
}

// vuSetMode writes the mode file verbatim.
func vuSetMode(dir, content string) {
	if err := os.WriteFile(filepath.Join(dir, "mode"), []byte(content), 0666); err != nil {
		panic(err)
	}
}

// vuUploader builds an uploader the way newUploader does, minus the config download.
func vuUploader(dir string, cfg *telemetry.UploadConfig, version, url string, start time.Time) *uploader {
	return &uploader{
		config:          cfg,
		configVersion:   version,
		dir:             telemetry.NewDir(dir),
		uploadServerURL: url,
		startTime:       RunConfig{StartTime: start}.startTime(), // as newUploader does
		logger:          log.New(vuLogWriter(), "", 0),
	}
}

// vuReadable filters the files Parse can read.
func vuWeeks(files []*vmodel.CountFile) map[string][]*vmodel.CountFile {
	m := map[string][]*vmodel.CountFile{}
	for _, f := range files {
		if f.Readable() {
			m[f.Week()] = append(m[f.Week()], f)
		}
	}
	return m
}

func vuDescribeFiles(files []*vmodel.CountFile) string {
	var sb strings.Builder
	for i, f := range files {
		if i > 0 {
			sb.WriteString(" | ")
		}
		fmt.Fprintf(&sb, "%s[%s %s..%s %s@%s %s %s/%s n=%d]", f.Kind, f.Base, f.Begin.Format("01-02"), f.End.Format("2006-01-02T15:04:05Z"),
			f.Program, f.Version, f.GoVersion, f.GOOS, f.GOARCH, len(f.Counts))
	}
	return sb.String()
}

func vuDescribeConfig(cfg *telemetry.UploadConfig) string {
	var sb strings.Builder
	fmt.Fprintf(&sb, "GOOS=%v GOARCH=%v Go=%v rate=%v", cfg.GOOS, cfg.GOARCH, cfg.GoVersion, cfg.SampleRate)
	for _, p := range cfg.Programs {
		fmt.Fprintf(&sb, " prog{%s v=%q", p.Name, p.Versions)
		for _, c := range p.Counters {
			fmt.Fprintf(&sb, " %s@%v", c.Name, c.Rate)
		}
		for _, c := range p.Stacks {
			fmt.Fprintf(&sb, " stack:%s@%v", c.Name, c.Rate)
		}
		sb.WriteString("}")
	}
	return sb.String()
}

// vuLogWriter: the uploader's log is discarded unless VERIF_UPLOAD_LOG is set (debugging a replay).
func vuLogWriter() io.Writer {
	if os.Getenv("VERIF_UPLOAD_LOG") != "" {
		return os.Stderr
	}
	return io.Discard
}

// vuProcessZone draws the local zone of the process for one case (weeks, days and the dates compared by the
// uploader are UTC whatever the local zone is) and returns the function that restores it.
func vuProcessZone(t *rapid.T) func() {
	lz := rapid.SampledFrom([]int{0, 0, 0, -8 * 3600, -12 * 3600, 14 * 3600, 5*3600 + 1800}).Draw(t, "processZone")
	if lz == 0 {
		return func() {}
	}
	saved := time.Local
	time.Local = time.FixedZone("local", lz)
	vstats.Label("processInOtherZone")
	return func() { time.Local = saved }
}
