// Package vformat is an independent reader, validator and writer of the
// documented v1 counter-file layout. It shares no code with
// golang.org/x/telemetry/internal/counter: everything is done with
// encoding/binary on plain byte slices.
//
// Layout (little-endian):
//
//	0..27     "# telemetry/counter file v1\n"
//	28..31    header length H
//	32..H     metadata "key: value\n" lines, NUL padded
//	H         allocation limit (0 = no record yet)
//	H+4+4b    head of bucket b, b < 512
//	records   u64 value | u32 nameLen(24 bit)+flags(8 bit) | u32 next | name
//	          size round32(16+nameLen), 32-aligned, never reaching the end of
//	          a 16 KiB page.
package vformat

import (
	"bytes"
	"encoding/binary"
	"fmt"
	"sort"
	"strings"
)

const (
	Prefix     = "# telemetry/counter file v1\n"
	PrefixLen  = 28
	HdrLenOff  = 28
	MetaOff    = 32
	NumHash    = 512
	Page       = 16384
	Unit       = 32
	MaxNameLen = 4096
	MaxMetaLen = 512
	Dead       = 0xFFFFFFFF
)

func Round(x, unit uint32) uint32 { return (x + unit - 1) / unit * unit }

// Bucket is 32-bit FNV-1a folded into 512 buckets.
func Bucket(name string) uint32 {
	h := uint32(2166136261)
	for i := 0; i < len(name); i++ {
		h ^= uint32(name[i])
		h *= 16777619
	}
	return (h ^ (h >> 16)) % NumHash
}

// HeaderLen is the header length for a metadata string.
func HeaderLen(meta string) uint32 { return Round(uint32(MetaOff+len(meta)), Unit) }

// FirstRecord is the lowest offset a record may have.
func FirstRecord(h uint32) uint32 { return Round(h+4+4*NumHash, Unit) }

// RecSize is the size of a record with a name of n bytes.
func RecSize(n int) uint32 { return Round(uint32(16+n), Unit) }

// Place is the documented placement rule, re-derived: the record goes at the
// allocation limit unless it would then reach the end of the 16 KiB page.
func Place(h, limit uint32, nameLen int) (start, end uint32) {
	if limit == 0 {
		limit = h + 4 + 4*NumHash
	}
	n := RecSize(nameLen)
	start = Round(limit, Unit)
	if start/Page != (start+n)/Page {
		start = Round(limit, Page)
	}
	return start, start + n
}

// Record is one decoded record.
type Record struct {
	Off    uint32
	Name   string
	Value  uint64
	Flags  byte
	Next   uint32
	Bucket uint32 // bucket whose chain reached it
}

func (r Record) End() uint32 { return r.Off + RecSize(len(r.Name)) }

// File is a decoded counter file.
type File struct {
	HdrLen  uint32
	RawMeta string      // metadata bytes up to the first NUL
	MetaKV  [][2]string // in file order
	Meta    map[string]string
	Limit   uint32
	Heads   [NumHash]uint32
	Records []Record // reachable records in bucket order, chain order
	Count   map[string]uint64
	Size    int
}

// Decode reads data as a counter file. It is lenient in the way the
// documented layout is: it needs the prefix, at least one page, a header
// length that leaves room for the table, metadata made of "k: v" lines, and
// finite in-bounds chains without duplicate names.
func Decode(data []byte) (*File, error) {
	if len(data) < Page {
		return nil, fmt.Errorf("short file (%d bytes)", len(data))
	}
	if !bytes.HasPrefix(data, []byte(Prefix)) {
		return nil, fmt.Errorf("bad prefix")
	}
	f := &File{Meta: map[string]string{}, Count: map[string]uint64{}, Size: len(data)}
	f.HdrLen = binary.LittleEndian.Uint32(data[HdrLenOff:])
	if f.HdrLen < MetaOff || f.HdrLen > Page {
		return nil, fmt.Errorf("header length %d out of range", f.HdrLen)
	}
	meta := data[MetaOff:f.HdrLen]
	if i := bytes.IndexByte(meta, 0); i >= 0 {
		meta = meta[:i]
	}
	f.RawMeta = string(meta)
	for _, line := range strings.Split(f.RawMeta, "\n") {
		if line == "" {
			continue
		}
		i := strings.Index(line, ": ")
		if i < 0 {
			return nil, fmt.Errorf("metadata line %q has no separator", line)
		}
		f.MetaKV = append(f.MetaKV, [2]string{line[:i], line[i+2:]})
		f.Meta[line[:i]] = line[i+2:]
	}
	u32 := func(off uint32) (uint32, bool) {
		if uint64(off)+4 > uint64(len(data)) {
			return 0, false
		}
		return binary.LittleEndian.Uint32(data[off:]), true
	}
	var ok bool
	if f.Limit, ok = u32(f.HdrLen); !ok {
		return nil, fmt.Errorf("limit out of bounds")
	}
	for b := uint32(0); b < NumHash; b++ {
		head, ok := u32(f.HdrLen + 4 + 4*b)
		if !ok {
			return nil, fmt.Errorf("bucket %d head out of bounds", b)
		}
		f.Heads[b] = head
		for off := head; off != 0; {
			if off < f.HdrLen+4 || uint64(off)+16 > uint64(len(data)) {
				return nil, fmt.Errorf("bucket %d: record offset %#x out of bounds", b, off)
			}
			word := binary.LittleEndian.Uint32(data[off+8:])
			n := word & 0xFFFFFF
			if n == 0 || uint64(off)+16+uint64(n) > uint64(len(data)) {
				return nil, fmt.Errorf("bucket %d: record %#x bad name length %d", b, off, n)
			}
			r := Record{
				Off:    off,
				Name:   string(data[off+16 : off+16+n]),
				Value:  binary.LittleEndian.Uint64(data[off:]),
				Flags:  byte(word >> 24),
				Next:   binary.LittleEndian.Uint32(data[off+12:]),
				Bucket: b,
			}
			if _, dup := f.Count[r.Name]; dup {
				return nil, fmt.Errorf("bucket %d: name %q reached twice (duplicate or cycle)", b, trunc(r.Name))
			}
			f.Count[r.Name] = r.Value
			f.Records = append(f.Records, r)
			off = r.Next
		}
	}
	return f, nil
}

func trunc(s string) string {
	if len(s) > 40 {
		return s[:40] + "..."
	}
	return s
}

// Validate checks every structural fact of the documented layout on a file
// that Decode accepted and returns the list of violated facts (empty = well
// formed).
func (f *File) Validate() []string {
	var p []string
	add := func(format string, a ...any) { p = append(p, fmt.Sprintf(format, a...)) }
	if f.HdrLen%Unit != 0 {
		add("header length %d is not a multiple of 32", f.HdrLen)
	}
	if want := HeaderLen(f.RawMeta); f.HdrLen != want {
		// A larger header is legal only as NUL padding to a multiple of 32;
		// the library always writes the minimum.
		if f.HdrLen < want {
			add("header length %d smaller than metadata needs (%d)", f.HdrLen, want)
		}
	}
	if f.Size%Page != 0 || f.Size < Page {
		add("file size %d is not a positive multiple of 16384", f.Size)
	}
	if uint64(f.Limit) > uint64(f.Size) {
		add("limit %#x exceeds file size %#x", f.Limit, f.Size)
	}
	first := FirstRecord(f.HdrLen)
	if len(f.Records) > 0 && f.Limit == 0 {
		add("records reachable but limit is 0")
	}
	recs := append([]Record(nil), f.Records...)
	sort.Slice(recs, func(i, j int) bool { return recs[i].Off < recs[j].Off })
	for i, r := range recs {
		if r.Off%Unit != 0 {
			add("record %q at %#x not 32-byte aligned", trunc(r.Name), r.Off)
		}
		if r.Off < first {
			add("record %q at %#x overlaps header/table (first legal %#x)", trunc(r.Name), r.Off, first)
		}
		if r.End() > f.Limit {
			add("record %q [%#x,%#x) beyond limit %#x", trunc(r.Name), r.Off, r.End(), f.Limit)
		}
		if r.Off/Page != r.End()/Page {
			add("record %q [%#x,%#x) reaches the reserved tail of its page", trunc(r.Name), r.Off, r.End())
		}
		if len(r.Name) > MaxNameLen {
			add("record at %#x has name length %d > 4096", r.Off, len(r.Name))
		}
		if b := Bucket(r.Name); b != r.Bucket {
			add("record %q at %#x is in bucket %d, FNV-1a bucket is %d", trunc(r.Name), r.Off, r.Bucket, b)
		}
		if r.Next == Dead {
			add("record %q at %#x is reachable but marked dead", trunc(r.Name), r.Off)
		}
		if i > 0 && recs[i-1].End() > r.Off {
			add("records at %#x and %#x overlap", recs[i-1].Off, r.Off)
		}
	}
	return p
}

// Rec is a record to be written by Encode.
type Rec struct {
	Name  string
	Value uint64
	Gap   uint32 // extra free space (rounded up to 32) left before the record
	Flags byte   // flag byte stored above the 24-bit name length (library writes 0xff)
}

// Options tunes Encode within what the layout allows.
type Options struct {
	// ChainOrder decides the order of records in a bucket chain: given the
	// indices (into recs) of a bucket's records in placement order it returns
	// them head first. nil = library order (last placed is the head).
	ChainOrder func(bucket uint32, idx []int) []int
	ExtraPages int    // zero pages appended after the page holding the limit
	LimitSlack uint32 // limit is raised by this much (rounded to 32) beyond the last record
	HdrPad     uint32 // extra NUL padding of the header, multiple of 32
}

// Encode writes a well-formed counter file holding exactly recs (names must
// be distinct, 1..4096 bytes) with the given raw metadata text.
func Encode(meta string, recs []Rec, o *Options) ([]byte, error) {
	if o == nil {
		o = &Options{}
	}
	if len(meta) > MaxMetaLen+Page { // caller decides about the library cap
		return nil, fmt.Errorf("metadata too long")
	}
	h := HeaderLen(meta) + Round(o.HdrPad, Unit)
	if h > Page-4-4*NumHash-Unit {
		return nil, fmt.Errorf("header too long")
	}
	type placed struct{ off uint32 }
	offs := make([]uint32, len(recs))
	limit := uint32(0)
	seen := map[string]bool{}
	for i, r := range recs {
		if len(r.Name) == 0 || len(r.Name) > MaxNameLen {
			return nil, fmt.Errorf("bad name length %d", len(r.Name))
		}
		if seen[r.Name] {
			return nil, fmt.Errorf("duplicate name")
		}
		seen[r.Name] = true
		base := limit
		if base == 0 {
			base = FirstRecord(h)
		}
		base += Round(r.Gap, Unit)
		start, end := Place(h, base, len(r.Name))
		offs[i] = start
		limit = end
	}
	if limit != 0 {
		limit += Round(o.LimitSlack, Unit)
	}
	size := Round(limit, Page)
	if size < Page {
		size = Page
	}
	size += uint32(o.ExtraPages) * Page
	data := make([]byte, size)
	copy(data, Prefix)
	binary.LittleEndian.PutUint32(data[HdrLenOff:], h)
	copy(data[MetaOff:], meta)
	binary.LittleEndian.PutUint32(data[h:], limit)
	buckets := map[uint32][]int{}
	for i, r := range recs {
		b := Bucket(r.Name)
		buckets[b] = append(buckets[b], i)
	}
	for b, idx := range buckets {
		var order []int
		if o.ChainOrder != nil {
			order = o.ChainOrder(b, idx)
		} else {
			for i := len(idx) - 1; i >= 0; i-- {
				order = append(order, idx[i])
			}
		}
		binary.LittleEndian.PutUint32(data[h+4+4*b:], offs[order[0]])
		for k, i := range order {
			next := uint32(0)
			if k+1 < len(order) {
				next = offs[order[k+1]]
			}
			off := offs[i]
			binary.LittleEndian.PutUint64(data[off:], recs[i].Value)
			binary.LittleEndian.PutUint32(data[off+8:], uint32(len(recs[i].Name))|uint32(recs[i].Flags)<<24)
			binary.LittleEndian.PutUint32(data[off+12:], next)
			copy(data[off+16:], recs[i].Name)
		}
	}
	return data, nil
}

// Meta renders the metadata block the way the documentation describes it:
// "key: value" lines followed by an empty line.
func Meta(kv [][2]string) string {
	var sb strings.Builder
	for _, e := range kv {
		sb.WriteString(e[0])
		sb.WriteString(": ")
		sb.WriteString(e[1])
		sb.WriteString("\n")
	}
	sb.WriteString("\n")
	return sb.String()
}

// StdMeta renders the seven standard keys in the order the library uses.
func StdMeta(begin, end, program, version, goVersion, goos, goarch string) string {
	return Meta([][2]string{
		{"TimeBegin", begin}, {"TimeEnd", end}, {"Program", program}, {"Version", version},
		{"GoVersion", goVersion}, {"GOOS", goos}, {"GOARCH", goarch},
	})
}

// ExpandStack is an independent implementation of the documented stack-name
// expansion: in a name containing newlines, a line whose text before its last
// dot is a single '"' repeats the import path (text before the last dot, with
// the dot) of the closest preceding line that had a non-empty one.
func ExpandStack(name string) string {
	if !strings.Contains(name, "\n") {
		return name
	}
	lines := strings.Split(name, "\n")
	last := ""
	for i, l := range lines {
		d := strings.LastIndexByte(l, '.')
		if d <= 0 { // no dot, or empty text before it
			continue
		}
		if l[:d] == `"` {
			lines[i] = last + l[d+1:]
		} else {
			last = l[:d+1]
		}
	}
	return strings.Join(lines, "\n")
}
