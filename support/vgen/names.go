// Package vgen holds rapid generators shared by several checks.
package vgen

import (
	"fmt"
	"strings"

	"golang.org/x/telemetry/internal/verif/vformat"
	"pgregory.net/rapid"
)

// NameLen draws a counter-name length biased to the values that matter for
// record sizes and page tails.
func NameLen() *rapid.Generator[int] {
	return rapid.OneOf(
		rapid.IntRange(1, 8),
		rapid.IntRange(1, 8),
		rapid.SampledFrom([]int{1, 15, 16, 17, 31, 32, 33, 47, 48, 49}),
		rapid.IntRange(1, 200),
		rapid.IntRange(4070, 4096),
		rapid.IntRange(1, 4096),
	)
}

var pkgs = []string{"main", "cmd/go/internal/work", "golang.org/x/tools/gopls/internal/server", "a.b/c", "example.com/v2", "runtime"}
var funcs = []string{"f", "main", "(*T).m", "T.m", "g[...]", "init.0", "func1.2"}

// StackName draws a name shaped like an encoded stack counter: a prefix line
// followed by frame lines, consecutive frames of one package abbreviated by a
// ditto mark, sometimes with hostile lines mixed in.
func StackName() *rapid.Generator[string] {
	return rapid.Custom(func(t *rapid.T) string {
		var sb strings.Builder
		sb.WriteString(rapid.SampledFrom([]string{"crash/crash", "gopls/bug", "s", "a.b", "x.y/z"}).Draw(t, "prefix"))
		n := rapid.IntRange(1, 8).Draw(t, "frames")
		last := ""
		for i := 0; i < n; i++ {
			sb.WriteByte('\n')
			switch rapid.IntRange(0, 9).Draw(t, "kind") {
			case 0:
				sb.WriteString(rapid.StringMatching(`[a-z". :+]{0,6}`).Draw(t, "odd"))
				continue
			case 1:
				sb.WriteString(`".`)
				sb.WriteString(rapid.SampledFrom(funcs).Draw(t, "fn"))
				continue
			}
			p := rapid.SampledFrom(pkgs).Draw(t, "pkg")
			show := p
			if p == last {
				show = `"`
			}
			last = p
			fmt.Fprintf(&sb, "%s.%s:%+d,+0x%x", show, rapid.SampledFrom(funcs).Draw(t, "fn"),
				rapid.IntRange(-1, 300).Draw(t, "line"), rapid.IntRange(0, 4000).Draw(t, "pc"))
		}
		return sb.String()
	})
}

// Name draws a counter name of 1..4096 arbitrary bytes: short readable ones,
// path-like ones with bucket syntax, stack-shaped ones, arbitrary bytes of a
// drawn length.
func Name() *rapid.Generator[string] {
	return rapid.OneOf(
		rapid.StringMatching(`[a-d]{1,3}`),
		rapid.StringMatching(`[a-c]{1,2}/[a-c]{1,2}(:[a-c0-9]{1,3})?`),
		StackName(),
		rapid.Custom(func(t *rapid.T) string {
			n := NameLen().Draw(t, "len")
			fill := rapid.SampledFrom([]string{"x", "ab", "\x00", "\xff", "é", "\n", " "}).Draw(t, "fill")
			head := rapid.StringN(0, 12, 12).Draw(t, "head")
			s := head + strings.Repeat(fill, n/len(fill)+1)
			return s[:n]
		}),
		rapid.Custom(func(t *rapid.T) string {
			b := rapid.SliceOfN(rapid.Byte(), 1, 64).Draw(t, "bytes")
			return string(b)
		}),
	)
}

// Value draws a counter value: mostly small, sometimes near the limits.
func Value() *rapid.Generator[uint64] {
	return rapid.OneOf(
		rapid.Uint64Range(0, 100),
		rapid.Uint64Range(0, 100),
		rapid.Uint64Range(0, 1<<40),
		rapid.SampledFrom([]uint64{1<<63 - 1, 1 << 63, 1<<64 - 2, 1<<64 - 1, 1<<33 - 1, 1 << 33}),
		rapid.Uint64(),
	)
}

// DistinctNames draws n distinct names, optionally forcing bucket collisions
// by deriving names from a small family.
func DistinctNames(t *rapid.T, min, max int, label string) []string {
	n := rapid.IntRange(min, max).Draw(t, label+"N")
	seen := map[string]bool{}
	var out []string
	collide := rapid.Bool().Draw(t, label+"Collide")
	for i := 0; len(out) < n && i < 4*n+8; i++ {
		var s string
		if collide && len(out) > 0 && rapid.IntRange(0, 2).Draw(t, label+"c") == 0 {
			s = Colliding(out[rapid.IntRange(0, len(out)-1).Draw(t, label+"ci")], len(seen))
		} else {
			s = Name().Draw(t, label)
		}
		if s == "" || len(s) > vformat.MaxNameLen || seen[s] {
			continue
		}
		seen[s] = true
		out = append(out, s)
	}
	return out
}

// Colliding returns a name different from base that falls into the same hash
// bucket (found by search over a numeric suffix; about 512 tries on average).
func Colliding(base string, salt int) string {
	want := vformat.Bucket(base)
	for i := 0; ; i++ {
		s := fmt.Sprintf("k%d_%d", salt, i)
		if vformat.Bucket(s) == want && s != base {
			return s
		}
	}
}

// MetaKV draws metadata lines "key: value": keys without ": ", newline or NUL,
// values without newline or NUL, total rendered size at most maxLen.
func MetaKV(t *rapid.T, maxLen int) [][2]string {
	n := rapid.IntRange(0, 9).Draw(t, "metaN")
	var kv [][2]string
	seen := map[string]bool{}
	size := 1
	for i := 0; i < n; i++ {
		k := rapid.OneOf(
			rapid.SampledFrom([]string{"TimeBegin", "TimeEnd", "Program", "Version", "GoVersion", "GOOS", "GOARCH"}),
			rapid.StringMatching(`[A-Za-z:][A-Za-z0-9:_-]{0,10}`),
		).Draw(t, "metaK")
		v := rapid.OneOf(
			rapid.StringMatching(`[ -~]{0,30}`),
			rapid.SampledFrom([]string{"", " ", ": ", "a: b", "2024-01-01T00:00:00Z", "golang.org/x/tools/gopls", "v1.2.3-pre.1", "é\xff",
				// any byte but a newline and NUL (the header's padding, which ends the metadata) can stand in a value:
				// control characters, also at its end (where line-oriented readers like to tidy up)
				"C:\\tools\\gopls\r", "\r", "a\rb", "x\t", "\tx", "trailing \x0b", "\x1b[0m", "\x7f", "\x01"}),
			rapid.StringMatching(`[a-z]{100,200}`),
		).Draw(t, "metaV")
		if seen[k] || strings.Contains(k, ": ") || strings.HasSuffix(k, ":") && strings.HasPrefix(v, " ") {
			continue
		}
		if size+len(k)+len(v)+3 > maxLen {
			continue
		}
		seen[k] = true
		size += len(k) + len(v) + 3
		kv = append(kv, [2]string{k, v})
	}
	return kv
}
