package vgen

import (
	"fmt"
	"sort"
	"strings"

	"golang.org/x/telemetry/internal/telemetry"
	"golang.org/x/telemetry/internal/verif/vmodel"
	"pgregory.net/rapid"
)

// ApprovedReport draws a report that the documented configuration semantics
// approve completely (strict rule: GOOS, GOARCH, Go version, program, version
// listed; every counter an expansion of a listed expression; every stack's
// first line a listed stack).
func ApprovedReport(t *rapid.T, cfg *telemetry.UploadConfig) *telemetry.Report {
	day := rapid.IntRange(0, 1500).Draw(t, "weekDay")
	r := &telemetry.Report{
		Week:   Midnight(StartTime0).AddDate(0, 0, day).Format("2006-01-02"),
		Config: rapid.SampledFrom([]string{"v1.2.3", "v0.0.1", "v0.31.0-pre.1", "v10.20.30+meta"}).Draw(t, "config"),
		X: rapid.OneOf(rapid.Float64Range(0.0001, 1), rapid.SampledFrom([]float64{0.5, 1, 1e-300, 5e-324, 0.9999999999999999, -0.25, 1e308, 123456789})).
			Draw(t, "x"),
	}
	if rapid.Bool().Draw(t, "lastWeek") {
		r.LastWeek = Midnight(StartTime0).AddDate(0, 0, day-7).Format("2006-01-02")
	}
	if len(cfg.Programs) == 0 || len(cfg.GoVersion) == 0 {
		return r
	}
	np := rapid.IntRange(0, 3).Draw(t, "nReportPrograms")
	for i := 0; i < np; i++ {
		pc := cfg.Programs[rapid.IntRange(0, len(cfg.Programs)-1).Draw(t, "rprog")]
		if len(pc.Versions) == 0 {
			continue
		}
		p := &telemetry.ProgramReport{
			Program:   pc.Name,
			Version:   rapid.SampledFrom(pc.Versions).Draw(t, "rver"),
			GoVersion: rapid.SampledFrom(cfg.GoVersion).Draw(t, "rgo"),
			GOOS:      rapid.SampledFrom(cfg.GOOS).Draw(t, "rgoos"),
			GOARCH:    rapid.SampledFrom(cfg.GOARCH).Draw(t, "rgoarch"),
			Counters:  map[string]int64{},
			Stacks:    map[string]int64{},
		}
		for _, c := range pc.Counters {
			for _, e := range vmodel.ExpandBuckets(c.Name) {
				if rapid.Bool().Draw(t, "withCounter") {
					p.Counters[e] = rapid.Int64Range(0, 1<<40).Draw(t, "cval")
				}
			}
		}
		for _, s := range pc.Stacks {
			if rapid.Bool().Draw(t, "withStack") {
				p.Stacks[s.Name+"\n"+stackTail(t)] = rapid.Int64Range(1, 100).Draw(t, "sval")
			}
		}
		r.Programs = append(r.Programs, p)
	}
	return r
}

// StartTime0 is the origin of generated report weeks.
var StartTime0 = mustDate("2022-06-01")

// MutateReport changes exactly one item of an approved report so that it is no
// longer approved / valid, and says what it changed ("" if the report offers
// nothing to mutate in the drawn way).
func MutateReport(t *rapid.T, cfg *telemetry.UploadConfig, r *telemetry.Report) string {
	kinds := []string{"week", "config", "x"}
	if len(r.Programs) > 0 {
		kinds = append(kinds, "program", "version", "goversion", "goos", "goarch", "counter", "literal", "stackprefix", "counter-like-stack", "stack-like-counter",
			"program", "version", "goversion", "goos", "goarch", "counter", "stackprefix", "platform-empty", "platform-empty")
	}
	if len(r.Programs) > 1 {
		kinds = append(kinds, "item-of-other-program", "item-of-other-program")
	}
	kind := rapid.SampledFrom(kinds).Draw(t, "mutation")
	var p *telemetry.ProgramReport
	var pc *telemetry.ProgramConfig
	if len(r.Programs) > 0 {
		p = r.Programs[rapid.IntRange(0, len(r.Programs)-1).Draw(t, "mutProg")]
		for _, c := range cfg.Programs {
			if c.Name == p.Program {
				pc = c
			}
		}
	}
	notIn := func(pool, list []string, label string) string {
		var cands []string
		for _, x := range pool {
			found := false
			for _, y := range list {
				if x == y {
					found = true
				}
			}
			if !found {
				cands = append(cands, x)
			}
		}
		cands = append(cands, "zz-unlisted")
		return rapid.SampledFrom(cands).Draw(t, label)
	}
	switch kind {
	case "week":
		r.Week = rapid.SampledFrom([]string{"2024-13-01", "2024-1-1", "../../x", "", "2024-02-30", "2024-01-01 ", "20240101", "2024-01-01/..", "2024/01/01",
			// text that is long in bytes and short in characters (error messages quote it), and bytes that are no text at all
			strings.Repeat("二〇二四年", 4), strings.Repeat("\xff", 25), strings.Repeat("é", 45), strings.Repeat("年", 27)}).Draw(t, "badWeek")
	case "config":
		r.Config = rapid.SampledFrom([]string{"1.2.3", "", "vx", "v1.2.3.4", "latest", "v-1.0.0", "v1.02.3", "v" + strings.Repeat("版本", 11), strings.Repeat("\xfe", 30)}).Draw(t, "badConfig")
	case "x":
		r.X = 0
	case "program":
		var names []string
		for _, c := range cfg.Programs {
			names = append(names, c.Name)
		}
		p.Program = notIn(ProgPool, names, "badProgram")
	case "version":
		p.Version = notIn(VersionPool, pc.Versions, "badVersion")
	case "goversion":
		p.GoVersion = notIn(GoVersPool, cfg.GoVersion, "badGoVersion")
		if len(cfg.GoVersion) > 0 && rapid.Bool().Draw(t, "nearMissGoVersion") {
			// a listed version with something appended, as a toolchain built with experiments or locally would report it
			v := rapid.SampledFrom(cfg.GoVersion).Draw(t, "listedGoVersion") +
				rapid.SampledFrom([]string{" X:rangefunc", " X:loopvar,aliastypeparams", "-devel", " ", "+dirty", ".0", "rc1", "\n", " go1.22.1"}).Draw(t, "goVersionSuffix")
			listed := false
			for _, l := range cfg.GoVersion {
				listed = listed || l == v
			}
			if !listed {
				p.GoVersion = v
			}
		}
	case "goos":
		p.GOOS = notIn(GOOSPool, cfg.GOOS, "badGOOS")
		if len(cfg.GOOS) > 0 && rapid.IntRange(0, 2).Draw(t, "nearMissGOOS") == 0 {
			v := rapid.SampledFrom(cfg.GOOS).Draw(t, "listedGOOS") + rapid.SampledFrom([]string{" ", "/arm", "2", "-gnu"}).Draw(t, "goosSuffix")
			listed := false
			for _, l := range cfg.GOOS {
				listed = listed || l == v
			}
			if !listed {
				p.GOOS = v
			}
		}
	case "goarch":
		p.GOARCH = notIn(GOARCHPool, cfg.GOARCH, "badGOARCH")
	case "platform-empty":
		// one, two or all three of the platform fields are empty (omitted by the sender)
		which := rapid.SampledFrom([]int{7, 7, 7, 1, 2, 4, 3, 5, 6}).Draw(t, "emptyFields")
		if which&1 != 0 {
			p.GOOS = ""
		}
		if which&2 != 0 {
			p.GOARCH = ""
		}
		if which&4 != 0 {
			p.GoVersion = ""
		}
		// (the entry may be put first: a validator that remembers the platform it approved last starts from "none")
		if rapid.Bool().Draw(t, "emptyPlatformFirst") {
			for i, q := range r.Programs {
				if q == p {
					r.Programs[0], r.Programs[i] = r.Programs[i], r.Programs[0]
				}
			}
		}
	case "counter":
		var listed []string
		for _, c := range pc.Counters {
			listed = append(listed, vmodel.ExpandBuckets(c.Name)...)
		}
		var pool []string
		for _, e := range ExprPool {
			pool = append(pool, vmodel.ExpandBuckets(e)...)
		}
		pool = append(pool, "chart:b4", "a/b ", "A/B", "chart:", "x/y", strings.Repeat("计数器名称", 4), "c/"+strings.Repeat("\xff", 24), strings.Repeat("ü", 40))
		p.Counters[notIn(pool, listed, "badCounter")] = 1
	case "literal":
		if len(pc.Counters) == 0 {
			p.Counters["chart:{b1,b2,b3}"] = 1
		} else {
			c := pc.Counters[rapid.IntRange(0, len(pc.Counters)-1).Draw(t, "litIdx")].Name
			if len(vmodel.ExpandBuckets(c)) == 1 && vmodel.ExpandBuckets(c)[0] == c {
				c = c + ":{x}"
			}
			p.Counters[c] = 1
		}
	case "stackprefix":
		var listed []string
		for _, s := range pc.Stacks {
			listed = append(listed, s.Name)
		}
		p.Stacks[notIn(append([]string{"crash/crashx", "crash/cras", "Crash/crash"}, StackPool...), listed, "badStack")+"\n"+stackTail(t)] = 1
	case "counter-like-stack":
		// a plain counter named like a listed stack (no newline): not a listed counter
		name := "stk"
		if len(pc.Stacks) > 0 {
			name = pc.Stacks[0].Name
		}
		if _, ok := vmodel.CounterRate(cfg, p.Program, name); ok {
			return ""
		}
		p.Counters[name] = 1
	case "item-of-other-program":
		// an item another program of the same report carries (approved there) that is not listed for this one
		type item struct {
			stack bool
			key   string
		}
		var cands []item
		for _, q := range r.Programs {
			if q == p {
				continue
			}
			for k := range q.Stacks {
				if _, ok := vmodel.StackRate(cfg, p.Program, k); !ok {
					cands = append(cands, item{true, k})
				}
			}
			for k := range q.Counters {
				if _, ok := vmodel.CounterRate(cfg, p.Program, k); !ok {
					cands = append(cands, item{false, k})
				}
			}
		}
		if len(cands) == 0 {
			return ""
		}
		sort.Slice(cands, func(a, b int) bool { return cands[a].key < cands[b].key })
		it := cands[rapid.IntRange(0, len(cands)-1).Draw(t, "otherItem")]
		if it.stack {
			p.Stacks[it.key] = 1
		} else {
			p.Counters[it.key] = 1
		}
	case "stack-like-counter":
		// a stack whose first line is a listed plain counter, not a listed stack
		name := "a/b"
		if len(pc.Counters) > 0 {
			name = vmodel.ExpandBuckets(pc.Counters[0].Name)[0]
		}
		if _, ok := vmodel.StackRate(cfg, p.Program, name+"\nx"); ok {
			return ""
		}
		p.Stacks[name+"\n"+stackTail(t)] = 1
	}
	return fmt.Sprintf("%s", kind)
}
