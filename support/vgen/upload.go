package vgen

import (
	"fmt"
	"path"
	"sort"
	"strings"
	"time"

	"golang.org/x/telemetry/internal/telemetry"
	"golang.org/x/telemetry/internal/verif/vformat"
	"golang.org/x/telemetry/internal/verif/vmodel"
	"pgregory.net/rapid"
)

var (
	// "cmd/go/a" extends "cmd/go" by a path element: with counter "b" resp. "a/b" (and stack "stk" resp. "a/stk")
	// the two programs have items whose program/name concatenations coincide
	ProgPool    = []string{"cmd/go", "cmd/go2", "cmd/g", "golang.org/x/tools/gopls", "Cmd/go", "cmd/go/a"}
	VersionPool = []string{"v1.2.3", "v1.2.4-pre.1", "devel", "go1.22.1", ""}
	GoVersPool  = []string{"go1.21.0", "go1.22.1", "go1.22", "devel", "go1.21rc2", "go1.22beta1"}
	GOOSPool    = []string{"linux", "darwin", "windows"}
	GOARCHPool  = []string{"amd64", "arm64", "386"}
	// counter expressions in the documented syntax; expansions are pairwise disjoint
	ExprPool = []string{"a/b", "a/bc", "x", "chart:{b1,b2,b3}", "chart2:{b}", "c:{b,bb}", "gopls/client:{vscode,vim}", "go/invocations", "b",
		// bucket names are taken verbatim, white space included
		"pad:{p, q}", "pad2:{r ,s}",
		// further buckets of charts listed above, as entries of their own (with rates of their own)
		"chart:{b4,b5}", "gopls/client:{emacs,other}", "c:{bbb}",
		// bucket names that contain the separator themselves
		"target:{linux:amd64,linux:arm64,other}", "sep:a:b",
		// characters that mark-up and quoting layers treat specially (a name is looked up as it is, not as it is displayed)
		"gopls/latency:{<50ms,>=1s}", "fmt&imports", "q'uote\"d"}
	StackPool = []string{"crash/crash", "gopls/bug", "stk", "a/stk"}
	RatePool  = []float64{0, 0.1, 0.5, 0.9, 1}
)

// InvalidUTF8Names enables local counter names with bytes that are not valid UTF-8 (set by checks whose oracle
// does not depend on how such a name is rendered in a local report).
var InvalidUTF8Names = false

func subset[T comparable](t *rapid.T, pool []T, min int, label string) []T {
	var out []T
	for i, x := range pool {
		if rapid.Bool().Draw(t, fmt.Sprintf("%s%d", label, i)) {
			out = append(out, x)
		}
	}
	for len(out) < min {
		x := pool[rapid.IntRange(0, len(pool)-1).Draw(t, label+"fill")]
		out = append(out, x)
		out = dedup(out)
	}
	return out
}

func dedup[T comparable](in []T) []T {
	seen := map[T]bool{}
	var out []T
	for _, x := range in {
		if !seen[x] {
			seen[x] = true
			out = append(out, x)
		}
	}
	return out
}

// UploadConfig draws an upload configuration in the documented shapes only.
func UploadConfig(t *rapid.T) *telemetry.UploadConfig {
	cfg := &telemetry.UploadConfig{
		GOOS:      subset(t, GOOSPool, 1, "cfgGOOS"),
		GOARCH:    subset(t, GOARCHPool, 1, "cfgGOARCH"),
		GoVersion: subset(t, GoVersPool, rapid.SampledFrom([]int{1, 1, 1, 1, 0}).Draw(t, "minGoVers"), "cfgGoVers"),
		SampleRate: rapid.OneOf(rapid.SampledFrom([]float64{0, 0.3, 1, 1, 1}), rapid.Float64Range(0, 1)).
			Draw(t, "sampleRate"),
	}
	nprog := rapid.IntRange(0, 4).Draw(t, "nprog")
	progs := dedup(rapid.SliceOfN(rapid.SampledFrom(ProgPool), nprog, nprog).Draw(t, "progs"))
	for _, name := range progs {
		p := &telemetry.ProgramConfig{Name: name, Versions: subset(t, VersionPool, rapid.SampledFrom([]int{1, 1, 1, 1, 0}).Draw(t, "minVers"), "vers")}
		for _, e := range subset(t, ExprPool, 0, "expr") {
			p.Counters = append(p.Counters, telemetry.CounterConfig{Name: e, Rate: rapid.SampledFrom(RatePool).Draw(t, "rate")})
		}
		for _, s := range subset(t, StackPool, 0, "stack") {
			p.Stacks = append(p.Stacks, telemetry.CounterConfig{Name: s, Rate: rapid.SampledFrom(RatePool).Draw(t, "srate"),
				Depth: rapid.IntRange(1, 16).Draw(t, "depth")})
		}
		cfg.Programs = append(cfg.Programs, p)
	}
	if ConcatTwins && rapid.IntRange(0, 5).Draw(t, "concatTwin") == 0 {
		// Two programs P and P+sep+"a": what P lists as "a"+sep+"b" and what the other program holds locally as
		// "b" (not listed for it) coincide once program and name are joined by sep - likewise for stacks and
		// versions. Approval is by the pair, whatever a lookup structure keys it by.
		sep := rapid.SampledFrom([]string{"@", ":", "", "/", "|", "#", "-"}).Draw(t, "twinSep")
		find := func(name string) *telemetry.ProgramConfig {
			for _, p := range cfg.Programs {
				if p.Name == name {
					return p
				}
			}
			p := &telemetry.ProgramConfig{Name: name, Versions: []string{"v1.2.4-pre.1"}}
			cfg.Programs = append(cfg.Programs, p)
			return p
		}
		p, q := find("cmd/go"), find("cmd/go"+sep+"a")
		has := func(l []telemetry.CounterConfig, name string) bool {
			for _, c := range l {
				if c.Name == name {
					return true
				}
			}
			return false
		}
		if !has(p.Counters, "a"+sep+"b") {
			p.Counters = append(p.Counters, telemetry.CounterConfig{Name: "a" + sep + "b", Rate: 1})
		}
		if !has(p.Stacks, "a"+sep+"stk") {
			p.Stacks = append(p.Stacks, telemetry.CounterConfig{Name: "a" + sep + "stk", Rate: 1, Depth: 4})
		}
		p.Versions = dedup(append(p.Versions, "a"+sep+"v1.2.3"))
		drop := func(l []telemetry.CounterConfig, name string) []telemetry.CounterConfig {
			var out []telemetry.CounterConfig
			for _, c := range l {
				if c.Name != name {
					out = append(out, c)
				}
			}
			return out
		}
		q.Counters, q.Stacks = drop(q.Counters, "b"), drop(q.Stacks, "stk")
		var vs []string
		for _, v := range q.Versions {
			if v != "v1.2.3" {
				vs = append(vs, v)
			}
		}
		if len(vs) == 0 {
			vs = []string{"v1.2.4-pre.1"}
		}
		q.Versions = vs
		twinProgram = q.Name
	} else {
		twinProgram = ""
	}
	return cfg
}

// ConcatTwins enables configurations with two programs whose (program, name) pairs coincide when joined by a
// separator (see UploadConfig), and local files of the second program holding the names in question.
var ConcatTwins = false

// twinProgram is the second program of the configuration drawn last ("" if it has none).
var twinProgram string

// marker returns a unique, recognisable substring for an invented unapproved item.
func marker(n *int) string {
	*n++
	return fmt.Sprintf("ZQ%dUNAPPROVED", *n)
}

var frames = []string{"main.main:+3,+0x1f", "\".run:+10,+0x44", "runtime.main:+5,+0x9", "golang.org/x/tools/gopls/internal/cmd.(*Serve).Run:+21,+0x2a", "\".f[...]:=12,+0x0"}

func stackTail(t *rapid.T) string {
	n := rapid.IntRange(1, 4).Draw(t, "nframes")
	var fs []string
	for i := 0; i < n; i++ {
		fs = append(fs, rapid.SampledFrom(frames).Draw(t, "frame"))
	}
	return strings.Join(fs, "\n")
}

// LocalName draws one raw counter name for a file of program prog: exact
// expansions of approved names, near-misses of them, stack names with approved
// and unapproved prefixes, and invented names carrying a unique marker.
func LocalName(t *rapid.T, cfg *telemetry.UploadConfig, prog string, mark *int, markers *[]string) string {
	var exprs, stacks []string
	for _, p := range cfg.Programs {
		if p.Name == prog || rapid.IntRange(0, 3).Draw(t, "otherProg") == 0 {
			for _, c := range p.Counters {
				exprs = append(exprs, c.Name)
			}
			for _, s := range p.Stacks {
				stacks = append(stacks, s.Name)
			}
		}
	}
	if len(exprs) == 0 || rapid.IntRange(0, 5).Draw(t, "poolExpr") == 0 {
		exprs = append(exprs, rapid.SampledFrom(ExprPool).Draw(t, "anyExpr"))
	}
	if len(stacks) == 0 || rapid.IntRange(0, 5).Draw(t, "poolStack") == 0 {
		stacks = append(stacks, rapid.SampledFrom(StackPool).Draw(t, "anyStack"))
	}
	expr := rapid.SampledFrom(exprs).Draw(t, "expr")
	exp := vmodel.ExpandBuckets(expr)
	one := rapid.SampledFrom(exp).Draw(t, "expansion")
	stack := rapid.SampledFrom(stacks).Draw(t, "stackPrefix")
	switch rapid.IntRange(-4, 13).Draw(t, "nameKind") {
	case -4, -3, -2, -1, 0, 1, 2, 3:
		return one
	case 4:
		if InvalidUTF8Names && rapid.IntRange(0, 2).Draw(t, "invalidUTF8") == 0 {
			// near misses that differ from an approved expansion only by bytes that are not valid UTF-8
			// (a counter name is raw bytes in the file; text handling that repairs them must not turn it into an approved name).
			// No two of these variants of one name become equal when the bytes are replaced by U+FFFD, as a JSON rendering does.
			variants := []string{one + "\xff", "\x80" + one, one + "\xed\xa0\x80"}
			if len(one) >= 2 {
				variants = append(variants, one[:len(one)/2]+"\xfe"+one[len(one)/2:]) // (in the middle; at the front it would render like the second)
			}
			return rapid.SampledFrom(variants).Draw(t, "invalidUTF8Name")
		}
		// near misses of an approved expansion
		return rapid.SampledFrom([]string{one[:len(one)-1] + "", one + "x", one + " ", strings.ToUpper(one), " " + one,
			one + "}", one + ",b2", strings.Replace(one, ":", "::", 1), strings.ReplaceAll(one, " ", ""), strings.Replace(one, ":", ": ", 1)}).Draw(t, "nearMiss")
	case 5:
		// the unexpanded literal and fragments of it
		pre, _, _ := strings.Cut(expr, "{")
		return rapid.SampledFrom([]string{expr, pre, pre + "{", strings.TrimSuffix(expr, "}"), pre + "b4", pre + "b1,b2", pre + "{b1}"}).Draw(t, "literal")
	case 6, 7:
		return stack + "\n" + stackTail(t)
	case 8:
		// stack whose prefix is an approved plain counter or expansion, not a stack
		return one + "\n" + stackTail(t)
	case 9:
		// near-miss stack prefixes
		return rapid.SampledFrom([]string{stack + "x", stack[:len(stack)-1], strings.ToUpper(stack), stack + " "}).Draw(t, "stackMiss") + "\n" + stackTail(t)
	case 10:
		// plain counter named like a stack entry
		return stack
	case 11:
		m := marker(mark)
		*markers = append(*markers, m)
		return "secret/" + m
	case 12:
		m := marker(mark)
		*markers = append(*markers, m)
		return "secretstack" + m + "\n" + stackTail(t)
	default:
		// approved stack prefix with an unusual frame: frames are stack data and may be uploaded
		return stack + "\nmain.odd" + fmt.Sprint(rapid.IntRange(0, 99).Draw(t, "oddFrame")) + ":+1,+0x2"
	}
}

// UploadScenario is a telemetry directory's worth of counter files plus a configuration.
type UploadScenario struct {
	Config  *telemetry.UploadConfig
	Files   []*vmodel.CountFile
	Start   time.Time
	Markers []string // substrings that must never appear in a request
	// FrameMarkers are markers placed in frames of approved stacks (allowed to be uploaded).
}

// FileOpts tunes CountFiles.
type FileOpts struct {
	StrictOS  bool // keep GOOS/GOARCH inside the configuration's lists
	MixedOS   bool // GOOS/GOARCH from the lists for about 3 of 4 builds, from the pool otherwise
	AllowBad  bool // mix in empty / unparseable files
	BigValues bool
	MaxFiles  int
	OnlyKnown bool // metadata only from the pools (no invented program/version)
}

// Midnight returns 00:00 UTC of t's day.
func Midnight(t time.Time) time.Time {
	y, m, d := t.UTC().Date()
	return time.Date(y, m, d, 0, 0, 0, 0, time.UTC)
}

// StartTime draws an upload start time (UTC) in 2023..2026.
func StartTime(t *rapid.T) time.Time {
	day := rapid.IntRange(0, 1200).Draw(t, "startDay")
	sec := rapid.OneOf(rapid.SampledFrom([]int{0, 1, 43200, 86399}), rapid.IntRange(0, 86399)).Draw(t, "startSec")
	return time.Date(2023, 1, 1, 0, 0, 0, 0, time.UTC).AddDate(0, 0, day).Add(time.Duration(sec) * time.Second)
}

// CountFiles draws counter files for the given week-end instants.
func CountFiles(t *rapid.T, cfg *telemetry.UploadConfig, ends []time.Time, o FileOpts, markers *[]string) []*vmodel.CountFile {
	if o.MaxFiles == 0 {
		o.MaxFiles = 6
	}
	mark := len(*markers) * 100
	n := rapid.IntRange(1, o.MaxFiles).Draw(t, "nfiles")
	// a small set of builds so that several files per build and week are common
	nb := rapid.IntRange(1, 3).Draw(t, "nbuilds")
	var builds []vmodel.Build
	for i := 0; i < nb; i++ {
		b := vmodel.Build{}
		progs := append([]string(nil), ProgPool...)
		for _, p := range cfg.Programs {
			progs = append(progs, p.Name, p.Name) // bias to configured programs
		}
		b.Program = rapid.SampledFrom(progs).Draw(t, "prog")
		vers := append([]string(nil), VersionPool...)
		for _, p := range cfg.Programs {
			if p.Name == b.Program {
				vers = append(vers, p.Versions...)
				vers = append(vers, p.Versions...)
			}
		}
		b.Version = rapid.SampledFrom(vers).Draw(t, "ver")
		b.GoVersion = rapid.SampledFrom(append(append([]string(nil), GoVersPool...), cfg.GoVersion...)).Draw(t, "gover")
		if len(cfg.Programs) > 0 && rapid.IntRange(0, 2).Draw(t, "approvedBuild") != 0 {
			// an approved build by construction (when the configuration allows one)
			p := cfg.Programs[rapid.IntRange(0, len(cfg.Programs)-1).Draw(t, "approvedProg")]
			b.Program = p.Name
			if len(p.Versions) > 0 {
				b.Version = rapid.SampledFrom(p.Versions).Draw(t, "approvedVer")
			}
			if len(cfg.GoVersion) > 0 {
				b.GoVersion = rapid.SampledFrom(cfg.GoVersion).Draw(t, "approvedGo")
			}
		}
		// near misses of listed values: approval is by exact string, so a listed value with a build tag, a
		// pre-release suffix, a major-version path element or stray white space is not listed
		switch rapid.IntRange(0, 23).Draw(t, "nearMissMeta") {
		case 0:
			b.Version += rapid.SampledFrom([]string{"+dirty", "+incompatible", "-dirty", "-0.20240101000000-abcdef123456", " ", ".0", "-pre.1"}).Draw(t, "versionSuffix")
		case 1:
			b.GoVersion += rapid.SampledFrom([]string{"rc1", "+dirty", "-X:boringcrypto", " X:nocoverageredesign", ".0", "-devel"}).Draw(t, "goVersionSuffix")
		case 2:
			b.Program += rapid.SampledFrom([]string{"/v2", ".exe", "@latest", "/", " "}).Draw(t, "programSuffix")
		}
		if !o.OnlyKnown {
			switch rapid.IntRange(0, 11).Draw(t, "inventMeta") {
			case 0:
				m := marker(&mark)
				*markers = append(*markers, m)
				b.Program = "example.com/" + m
			case 1:
				m := marker(&mark)
				*markers = append(*markers, m)
				b.Version = "v0.0.1-" + m
			case 2:
				m := marker(&mark)
				*markers = append(*markers, m)
				b.GoVersion = "go1.99" + m
			}
		}
		if o.StrictOS || (o.MixedOS && rapid.IntRange(0, 3).Draw(t, "listedOS") != 0) {
			b.GOOS = rapid.SampledFrom(cfg.GOOS).Draw(t, "goos")
			b.GOARCH = rapid.SampledFrom(cfg.GOARCH).Draw(t, "goarch")
		} else {
			b.GOOS = rapid.SampledFrom(GOOSPool).Draw(t, "goos")
			b.GOARCH = rapid.SampledFrom(GOARCHPool).Draw(t, "goarch")
		}
		builds = append(builds, b)
	}
	var files []*vmodel.CountFile
	usedNames := map[string]bool{}
	for i := 0; i < n; i++ {
		f := &vmodel.CountFile{Build: builds[rapid.IntRange(0, len(builds)-1).Draw(t, "build")], Kind: "ok", Counts: map[string]uint64{}}
		f.End = ends[rapid.IntRange(0, len(ends)-1).Draw(t, "week")]
		f.Begin = f.End.AddDate(0, 0, -1-rapid.IntRange(0, 6).Draw(t, "spanDays"))
		if rapid.IntRange(0, 7).Draw(t, "oddSpan") == 0 {
			// what decides a file's week is its recorded end; the recorded span may be anything before it: a week
			// that had a clock change (written by a program using local time), a file kept open for longer, an hour
			f.Begin = f.End.Add(-rapid.SampledFrom([]time.Duration{7*24*time.Hour + time.Hour, 8 * 24 * time.Hour, 10 * 24 * time.Hour, 16 * 24 * time.Hour, 40 * 24 * time.Hour, time.Hour, time.Second}).Draw(t, "oddSpanLen"))
		}
		if o.AllowBad {
			f.Kind = rapid.SampledFrom([]string{"ok", "ok", "ok", "ok", "ok", "empty", "garbage", "truncated", "baddate", "nometa", "badbody"}).Draw(t, "kind")
		}
		if f.Kind != "empty" {
			nc := rapid.IntRange(1, 7).Draw(t, "ncounters")
			expanded := map[string]bool{}
			for j := 0; j < nc; j++ {
				name := LocalName(t, cfg, f.Program, &mark, markers)
				e := vformat.ExpandStack(name)
				if name == "" || len(name) > 4096 || expanded[e] {
					continue
				}
				expanded[e] = true
				var v uint64
				if o.BigValues && rapid.IntRange(0, 30).Draw(t, "big") == 0 {
					v = rapid.SampledFrom([]uint64{1<<63 - 1, 1 << 63, 1<<64 - 1}).Draw(t, "bigv")
				} else {
					v = rapid.OneOf(rapid.Uint64Range(0, 20), rapid.Uint64Range(0, 1<<40)).Draw(t, "val")
				}
				f.Counts[name] = v
			}
			if twinProgram != "" && f.Program == twinProgram {
				// the names that the other program's entries would cover if program and name were joined
				if _, ok := f.Counts["b"]; !ok && rapid.Bool().Draw(t, "twinCounter") {
					f.Counts["b"] = rapid.Uint64Range(1, 20).Draw(t, "twinVal")
				}
				if rapid.Bool().Draw(t, "twinStack") && !expanded["stk\nf:1"] {
					f.Counts["stk\nf:1"] = 3
				}
			}
			if len(f.Counts) == 0 {
				f.Counts["a/b"] = 1
			}
		}
		base := path.Base(f.Program)
		if f.Version != "" {
			base += "@" + f.Version
		}
		base = fmt.Sprintf("%s-%s-%s-%s-%s", base, f.GoVersion, f.GOOS, f.GOARCH, f.Begin.Format("2006-01-02"))
		base = strings.ReplaceAll(base, "/", "_") // (a version of a twin configuration can hold a slash)
		// What a counter file means is in its metadata, not in its name: one name in eight says something else
		// (another date, another program, no structure at all).
		switch rapid.IntRange(0, 23).Draw(t, "oddFileName") {
		case 0:
			base = fmt.Sprintf("%s-%s-%s-%s-%s", path.Base(f.Program), f.GoVersion, f.GOOS, f.GOARCH, f.End.AddDate(0, 0, 9).Format("2006-01-02"))
		case 1:
			base = "other@v9.9.9-go1.1-plan9-mips-2001-01-01"
		case 2:
			base = fmt.Sprintf("data%d", len(files))
		case 3:
			// a program whose base name starts like the name of a local report (local.test is the test binary of a package "local")
			base = "local." + strings.TrimPrefix(base, "cmd/")
			if rapid.Bool().Draw(t, "localTest") {
				base = fmt.Sprintf("local.test-%s-%s-%s-%s", f.GoVersion, f.GOOS, f.GOARCH, f.Begin.Format("2006-01-02"))
			}
		case 4:
			// ... or ends like the name of a report
			base = fmt.Sprintf("tool.json@v1-%s-%s-%s-%s.json", f.GoVersion, f.GOOS, f.GOARCH, f.End.Format("2006-01-02"))
		}
		for k := 0; usedNames[base]; k++ {
			base = fmt.Sprintf("%s_%d", base, k)
		}
		usedNames[base] = true
		f.Base = base + ".v1.count"
		f.Bytes = EncodeCountFile(f)
		files = append(files, f)
	}
	return files
}

// EncodeCountFile renders a CountFile with the independent writer (or damages it, by Kind).
func EncodeCountFile(f *vmodel.CountFile) []byte {
	begin, end := f.Begin.Format(time.RFC3339), f.End.Format(time.RFC3339)
	meta := vformat.StdMeta(begin, end, f.Program, f.Version, f.GoVersion, f.GOOS, f.GOARCH)
	switch f.Kind {
	case "baddate":
		meta = vformat.StdMeta(begin, "next tuesday", f.Program, f.Version, f.GoVersion, f.GOOS, f.GOARCH)
	case "nometa":
		meta = vformat.Meta([][2]string{{"Program", f.Program}})
	}
	var recs []vformat.Rec
	names := make([]string, 0, len(f.Counts))
	for k := range f.Counts {
		names = append(names, k)
	}
	sort.Strings(names)
	for _, k := range names {
		recs = append(recs, vformat.Rec{Name: k, Value: f.Counts[k], Flags: 0xff})
	}
	data, err := vformat.Encode(meta, recs, nil)
	if err != nil {
		panic("vgen: " + err.Error())
	}
	switch f.Kind {
	case "garbage":
		return []byte("this is not a counter file\n")
	case "truncated":
		return data[:len(data)/3]
	case "badbody":
		// an intact header (dates, program) over a damaged body: the first used hash bucket points past the
		// end of the file, as in a file that lost its tail
		if vf, err := vformat.Decode(data); err == nil && len(vf.Records) > 0 {
			off := vf.HdrLen + 4 + 4*vf.Records[0].Bucket
			data[off], data[off+1], data[off+2], data[off+3] = 0xe0, 0xff, 0xff, 0x7f
		} else {
			return data[:len(data)/3]
		}
	}
	return data
}

// UploadCase draws configuration, start time and expired counter files over 1..3 recent weeks.
func UploadCase(t *rapid.T, o FileOpts) *UploadScenario {
	s := &UploadScenario{Config: UploadConfig(t), Start: StartTime(t)}
	nweeks := rapid.IntRange(1, 3).Draw(t, "nweeks")
	var ends []time.Time
	k := rapid.IntRange(0, 6).Draw(t, "firstWeekAgeDays")
	for i := 0; i < nweeks; i++ {
		ends = append(ends, Midnight(s.Start).AddDate(0, 0, -k))
		k += rapid.IntRange(1, 7).Draw(t, "weekGapDays")
	}
	s.Files = CountFiles(t, s.Config, ends, o, &s.Markers)
	return s
}

func mustDate(s string) time.Time {
	t, err := time.Parse("2006-01-02", s)
	if err != nil {
		panic(err)
	}
	return t
}
