// Package vhook is the run-time side of vrewrite: a cooperative scheduler for
// logical threads, a crash (kill) injector, a fault plan for intercepted
// file-system / HTTP calls and a step counter.
//
// It is injected into the module under test through the build overlay and only
// ever linked into verification test binaries.
//
// With no controller installed every hook is a transparent pass-through.
package vhook

import (
	"bytes"
	crand "crypto/rand"
	"fmt"
	"io"
	"io/fs"
	mrand "math/rand"
	"net/http"
	"os"
	"runtime"
	"runtime/debug"
	"strings"
	"sync"
	"sync/atomic"
	"syscall"
	"time"
)

// A Call is one intercepted file-system / HTTP call.
type Call struct {
	Idx    int
	Thread int // -1 = not a managed thread
	Site   string
	Op     string
	Arg    string
	Arg2   string
	// Set by the plan (before the call) / by the hook (after it):
	Inject error  // error injected instead of performing the call
	Short  bool   // for writes: perform a short write (half the bytes) and return io.ErrShortWrite
	Noop   bool   // for WriteAt: report success without writing anything (a file system that does not extend the file, go.dev/issue/68311)
	Err    string // error actually returned to the caller ("" = nil)
}

// Thread is a logical thread (a goroutine of which at most one runs at a time).
type Thread struct {
	ID     int
	Name   string
	resume chan struct{}
	Done   bool
	Killed bool
	// what the thread waits for, if blocked
	blockedMu   *sync.Mutex
	blockedOnce *onceState
	Site        string // last yield site
	Steps       int
	Panic       any
	Stack       string
	FaultAddr   uintptr
	IsFault     bool
	Budget      bool // panicked because the tick budget was exceeded
	started     bool
	fn          func()
}

type onceState struct {
	running bool
	done    bool
}

// BudgetExceeded is the panic value raised by Tick when the step budget of the
// controller is exhausted.
type BudgetExceeded struct{ Ticks int64 }

func (b BudgetExceeded) Error() string {
	return fmt.Sprintf("vhook: step budget exceeded (%d ticks)", b.Ticks)
}

// Controller owns one generated execution.
type Controller struct {
	Threads []*Thread
	cur     *Thread
	back    chan struct{}

	// Fault plan and call log.
	Calls   int
	Plan    func(c *Call)
	KeepLog bool
	Log     []Call

	// Replacements for the outside world (nil = real thing).
	PostFn  func(thread int, url string, body []byte) (status int, err error)
	NowFn   func() time.Time
	RandFn  func(b []byte)
	IntnFn  func(n int) int
	AfterFn func(d time.Duration, f func())

	// Resource cap: writes beyond this file offset fail with ENOSPC (0 = 64 MiB),
	// so that a corrupt allocation limit cannot create multi-GiB sparse files.
	MaxFileSize int64

	// Step counting.
	Ticks      int64
	TickBudget int64 // 0 = unlimited
	Yields     int64
	direct     bool // Direct mode: a single goroutine runs the tested code
	// CallBudget bounds the number of intercepted system calls (0 = unlimited). A loop that
	// re-opens or re-maps a file on every iteration ends in the real world only by accident
	// (descriptor or mapping exhaustion); with a call budget it is reported as unbounded.
	CallBudget int

	// Trace of (thread, site) per scheduler step, if TraceOn.
	TraceOn bool
	Trace   []string

	onces map[*sync.Once]*onceState
}

var active atomic.Pointer[Controller]

// New creates a controller; Install makes it the one the hooks consult.
func New() *Controller {
	return &Controller{back: make(chan struct{}), onces: map[*sync.Once]*onceState{}}
}

func (c *Controller) Install() { active.Store(c) }
func Uninstall()               { active.Store(nil) }
func Active() *Controller      { return active.Load() }

// Go registers a logical thread. It does not start running until stepped.
func (c *Controller) Go(name string, fn func()) *Thread {
	t := &Thread{ID: len(c.Threads), Name: name, resume: make(chan struct{}), fn: fn}
	c.Threads = append(c.Threads, t)
	return t
}

func (c *Controller) start(t *Thread) {
	t.started = true
	go func() {
		<-t.resume
		debug.SetPanicOnFault(true)
		defer func() {
			if r := recover(); r != nil {
				t.Panic = r
				t.Stack = string(debug.Stack())
				if be, ok := r.(BudgetExceeded); ok {
					_ = be
					t.Budget = true
				}
				if re, ok := r.(runtime.Error); ok {
					if a, ok := re.(interface{ Addr() uintptr }); ok {
						t.IsFault = true
						t.FaultAddr = a.Addr()
					}
				}
			}
			t.Done = true
			c.back <- struct{}{}
		}()
		t.fn()
	}()
}

func (t *Thread) blocked() bool { return t.blockedMu != nil || t.blockedOnce != nil }

// Runnable returns the threads that can take a step.
func (c *Controller) Runnable() []*Thread {
	var r []*Thread
	for _, t := range c.Threads {
		if !t.Done && !t.Killed && !t.blocked() {
			r = append(r, t)
		}
	}
	return r
}

// Live returns the number of threads that are neither finished nor killed.
func (c *Controller) Live() int {
	n := 0
	for _, t := range c.Threads {
		if !t.Done && !t.Killed {
			n++
		}
	}
	return n
}

// Step runs t until its next yield point, its completion, or until it blocks.
func (c *Controller) Step(t *Thread) {
	if t.Done || t.Killed {
		return
	}
	if !t.started {
		c.start(t)
	}
	c.cur = t
	t.Steps++
	t.resume <- struct{}{}
	<-c.back
	c.cur = nil
	if c.TraceOn {
		c.Trace = append(c.Trace, fmt.Sprintf("%d@%s", t.ID, t.Site))
	}
}

// Kill stops a thread for good at its current yield point: nothing it deferred
// runs, locks it holds stay held (like SIGKILL for a process).
func (c *Controller) Kill(t *Thread) { t.Killed = true }

// RunAlone steps t until it finishes or maxSteps is reached; reports whether it finished.
func (c *Controller) RunAlone(t *Thread, maxSteps int) bool {
	for i := 0; i < maxSteps && !t.Done && !t.Killed; i++ {
		if t.blocked() {
			return false
		}
		c.Step(t)
	}
	return t.Done
}

func (c *Controller) managed() *Thread {
	if c == nil {
		return nil
	}
	return c.cur
}

func (c *Controller) yield(site string) {
	t := c.cur
	if t == nil {
		return
	}
	t.Site = site
	c.Yields++
	c.back <- struct{}{}
	<-t.resume
}

// ---- yield points for atomics / locks ----

// P yields and returns p (wrapped around the receiver of an atomic method).
func P[T any](site string, p *T) *T {
	if c := active.Load(); c != nil {
		c.yield(site)
	}
	return p
}

// Y yields and returns x.
func Y[T any](site string, x T) T {
	if c := active.Load(); c != nil {
		c.yield(site)
	}
	return x
}

// Deadlock is the panic value raised in direct mode when a mutex cannot be
// acquired: the only goroutine running the tested code would block forever.
type Deadlock struct{ Site string }

func (d Deadlock) Error() string {
	return "vhook: deadlock: " + d.Site + " waits for a mutex that is never released (it is held by the calling goroutine itself)"
}

func Lock(site string, mu *sync.Mutex) {
	c := active.Load()
	if c != nil && c.direct {
		// one goroutine runs the tested code: a mutex that stays locked is held by that goroutine
		for i := 0; !mu.TryLock(); i++ {
			if i > 2000 {
				panic(Deadlock{site})
			}
			time.Sleep(time.Millisecond)
		}
		return
	}
	if c.managed() == nil {
		mu.Lock()
		return
	}
	t := c.cur
	c.yield(site)
	for !mu.TryLock() {
		t.blockedMu = mu
		c.yield(site)
	}
}

func TryLock(site string, mu *sync.Mutex) bool {
	if c := active.Load(); c != nil {
		c.yield(site)
	}
	return mu.TryLock()
}

func Unlock(site string, mu *sync.Mutex) {
	mu.Unlock()
	if c := active.Load(); c != nil {
		for _, t := range c.Threads {
			if t.blockedMu == mu {
				t.blockedMu = nil
			}
		}
	}
}

func OnceDo(site string, o *sync.Once, f func()) {
	c := active.Load()
	if c.managed() == nil {
		o.Do(f)
		return
	}
	t := c.cur
	st := c.onces[o]
	if st == nil {
		st = &onceState{}
		c.onces[o] = st
	}
	c.yield(site)
	for {
		if st.done {
			return
		}
		if !st.running {
			st.running = true
			o.Do(f)
			st.done = true
			st.running = false
			for _, w := range c.Threads {
				if w.blockedOnce == st {
					w.blockedOnce = nil
				}
			}
			return
		}
		t.blockedOnce = st
		c.yield(site)
	}
}

// Tick counts one loop iteration and enforces the step budget.
func Tick(site string) {
	c := active.Load()
	if c == nil {
		return
	}
	n := atomic.AddInt64(&c.Ticks, 1)
	if c.TickBudget > 0 && n > c.TickBudget {
		panic(BudgetExceeded{n})
	}
}

// ---- intercepted calls ----

func (c *Controller) before(site, op, arg, arg2 string) *Call {
	if c == nil {
		return nil
	}
	tid := -1
	if c.cur != nil {
		tid = c.cur.ID
		c.yield(site)
	}
	call := &Call{Idx: c.Calls, Thread: tid, Site: site, Op: op, Arg: arg, Arg2: arg2}
	c.Calls++
	if c.CallBudget > 0 && c.Calls > c.CallBudget {
		panic(BudgetExceeded{int64(c.Calls)})
	}
	if c.Plan != nil {
		c.Plan(call)
	}
	return call
}

func (c *Controller) after(call *Call, err error) {
	if c == nil || call == nil {
		return
	}
	if err != nil {
		call.Err = err.Error()
	}
	if c.KeepLog {
		c.Log = append(c.Log, *call)
	}
}

func pathErr(op, path string, err error) error {
	if _, ok := err.(*fs.PathError); ok {
		return err
	}
	return &fs.PathError{Op: op, Path: path, Err: err}
}

func OsOpenFile(site, name string, flag int, perm os.FileMode) (*os.File, error) {
	c := active.Load()
	call := c.before(site, "OpenFile", name, fmt.Sprintf("%#x", flag))
	if call != nil && call.Inject != nil {
		err := pathErr("open", name, call.Inject)
		c.after(call, err)
		return nil, err
	}
	f, err := os.OpenFile(name, flag, perm)
	c.after(call, err)
	return f, err
}

func OsOpen(site, name string) (*os.File, error) {
	return OsOpenFile(site, name, os.O_RDONLY, 0)
}

func OsCreate(site, name string) (*os.File, error) {
	return OsOpenFile(site, name, os.O_RDWR|os.O_CREATE|os.O_TRUNC, 0666)
}

func OsReadFile(site, name string) ([]byte, error) {
	c := active.Load()
	call := c.before(site, "ReadFile", name, "")
	if call != nil && call.Inject != nil {
		err := pathErr("open", name, call.Inject)
		c.after(call, err)
		return nil, err
	}
	b, err := os.ReadFile(name)
	c.after(call, err)
	return b, err
}

func OsWriteFile(site, name string, data []byte, perm os.FileMode) error {
	c := active.Load()
	call := c.before(site, "WriteFile", name, "")
	if call != nil && call.Inject != nil {
		err := pathErr("open", name, call.Inject)
		c.after(call, err)
		return err
	}
	if call != nil && call.Short {
		// the file is created and half the data written, then the write fails
		os.WriteFile(name, data[:len(data)/2], perm)
		err := pathErr("write", name, io.ErrShortWrite)
		c.after(call, err)
		return err
	}
	err := os.WriteFile(name, data, perm)
	c.after(call, err)
	return err
}

func OsReadDir(site, name string) ([]os.DirEntry, error) {
	c := active.Load()
	call := c.before(site, "ReadDir", name, "")
	if call != nil && call.Inject != nil {
		err := pathErr("open", name, call.Inject)
		c.after(call, err)
		return nil, err
	}
	d, err := os.ReadDir(name)
	c.after(call, err)
	return d, err
}

func OsStat(site, name string) (os.FileInfo, error) {
	c := active.Load()
	call := c.before(site, "Stat", name, "")
	if call != nil && call.Inject != nil {
		err := pathErr("stat", name, call.Inject)
		c.after(call, err)
		return nil, err
	}
	fi, err := os.Stat(name)
	c.after(call, err)
	return fi, err
}

func OsRemove(site, name string) error {
	c := active.Load()
	call := c.before(site, "Remove", name, "")
	if call != nil && call.Inject != nil {
		err := pathErr("remove", name, call.Inject)
		c.after(call, err)
		return err
	}
	err := os.Remove(name)
	c.after(call, err)
	return err
}

func OsRemoveAll(site, name string) error {
	c := active.Load()
	call := c.before(site, "RemoveAll", name, "")
	if call != nil && call.Inject != nil {
		err := pathErr("remove", name, call.Inject)
		c.after(call, err)
		return err
	}
	err := os.RemoveAll(name)
	c.after(call, err)
	return err
}

func OsRename(site, from, to string) error {
	c := active.Load()
	call := c.before(site, "Rename", from, to)
	if call != nil && call.Inject != nil {
		err := &os.LinkError{Op: "rename", Old: from, New: to, Err: call.Inject}
		c.after(call, err)
		return err
	}
	err := os.Rename(from, to)
	c.after(call, err)
	return err
}

func OsMkdirAll(site, name string, perm os.FileMode) error {
	c := active.Load()
	call := c.before(site, "MkdirAll", name, "")
	if call != nil && call.Inject != nil {
		err := pathErr("mkdir", name, call.Inject)
		c.after(call, err)
		return err
	}
	err := os.MkdirAll(name, perm)
	c.after(call, err)
	return err
}

func OsMkdir(site, name string, perm os.FileMode) error {
	c := active.Load()
	call := c.before(site, "Mkdir", name, "")
	if call != nil && call.Inject != nil {
		err := pathErr("mkdir", name, call.Inject)
		c.after(call, err)
		return err
	}
	err := os.Mkdir(name, perm)
	c.after(call, err)
	return err
}

func fname(f *os.File) string {
	if f == nil {
		return "<nil>"
	}
	return f.Name()
}

func FileWrite(site string, f *os.File, b []byte) (int, error) {
	c := active.Load()
	call := c.before(site, "File.Write", fname(f), "")
	if call != nil && call.Inject != nil {
		err := pathErr("write", fname(f), call.Inject)
		c.after(call, err)
		return 0, err
	}
	if call != nil && call.Short && len(b) > 1 {
		n, _ := f.Write(b[:len(b)/2])
		err := pathErr("write", fname(f), io.ErrShortWrite)
		c.after(call, err)
		return n, err
	}
	n, err := f.Write(b)
	c.after(call, err)
	return n, err
}

func FileWriteString(site string, f *os.File, s string) (int, error) {
	return FileWrite(site, f, []byte(s))
}

func FileWriteAt(site string, f *os.File, b []byte, off int64) (int, error) {
	c := active.Load()
	call := c.before(site, "File.WriteAt", fname(f), fmt.Sprint(off))
	if call != nil && call.Inject == nil {
		max := c.MaxFileSize
		if max == 0 {
			max = 64 << 20
		}
		if off+int64(len(b)) > max {
			call.Inject = syscall.ENOSPC
			call.Arg2 += " (resource cap)"
		}
	}
	if call != nil && call.Inject != nil {
		err := pathErr("write", fname(f), call.Inject)
		c.after(call, err)
		return 0, err
	}
	if call != nil && call.Noop {
		c.after(call, nil)
		return len(b), nil
	}
	if call != nil && call.Short && len(b) > 1 {
		n, _ := f.WriteAt(b[:len(b)/2], off)
		err := pathErr("write", fname(f), io.ErrShortWrite)
		c.after(call, err)
		return n, err
	}
	n, err := f.WriteAt(b, off)
	c.after(call, err)
	return n, err
}

func FileRead(site string, f *os.File, b []byte) (int, error) {
	c := active.Load()
	call := c.before(site, "File.Read", fname(f), "")
	if call != nil && call.Inject != nil {
		err := pathErr("read", fname(f), call.Inject)
		c.after(call, err)
		return 0, err
	}
	n, err := f.Read(b)
	c.after(call, err)
	return n, err
}

func FileReadAt(site string, f *os.File, b []byte, off int64) (int, error) {
	c := active.Load()
	call := c.before(site, "File.ReadAt", fname(f), fmt.Sprint(off))
	if call != nil && call.Inject != nil {
		err := pathErr("read", fname(f), call.Inject)
		c.after(call, err)
		return 0, err
	}
	n, err := f.ReadAt(b, off)
	c.after(call, err)
	return n, err
}

func FileStat(site string, f *os.File) (os.FileInfo, error) {
	c := active.Load()
	call := c.before(site, "File.Stat", fname(f), "")
	if call != nil && call.Inject != nil {
		err := pathErr("stat", fname(f), call.Inject)
		c.after(call, err)
		return nil, err
	}
	fi, err := f.Stat()
	c.after(call, err)
	return fi, err
}

func FileClose(site string, f *os.File) error {
	c := active.Load()
	call := c.before(site, "File.Close", fname(f), "")
	// Close always really closes (an injected error models a failed flush on close).
	err := f.Close()
	if call != nil && call.Inject != nil {
		err = pathErr("close", fname(f), call.Inject)
	}
	c.after(call, err)
	return err
}

func FileSync(site string, f *os.File) error {
	c := active.Load()
	call := c.before(site, "File.Sync", fname(f), "")
	if call != nil && call.Inject != nil {
		err := pathErr("sync", fname(f), call.Inject)
		c.after(call, err)
		return err
	}
	err := f.Sync()
	c.after(call, err)
	return err
}

func FileTruncate(site string, f *os.File, n int64) error {
	c := active.Load()
	call := c.before(site, "File.Truncate", fname(f), fmt.Sprint(n))
	if call != nil && call.Inject != nil {
		err := pathErr("truncate", fname(f), call.Inject)
		c.after(call, err)
		return err
	}
	err := f.Truncate(n)
	c.after(call, err)
	return err
}

// CallVar2 intercepts a call through a package-level variable of type
// func(A) (R, error) (internal/counter.memmap).
func CallVar2[A, R any](site, name string, fn func(A) (R, error), a A) (R, error) {
	c := active.Load()
	arg := ""
	if f, ok := any(a).(*os.File); ok {
		arg = fname(f)
	}
	call := c.before(site, name, arg, "")
	if call != nil && call.Inject != nil {
		var zero R
		err := pathErr(name, arg, call.Inject)
		c.after(call, err)
		return zero, err
	}
	r, err := fn(a)
	c.after(call, err)
	return r, err
}

// CallVar1 is CallVar2 for func(A) error (internal/counter.munmap).
func CallVar1[A any](site, name string, fn func(A) error, a A) error {
	c := active.Load()
	call := c.before(site, name, "", "")
	// unmapping is always really performed; an injected error is only reported
	err := fn(a)
	if call != nil && call.Inject != nil {
		err = call.Inject
	}
	c.after(call, err)
	return err
}

// HTTPPost replaces net/http.Post. With a PostFn the request never leaves the
// process: the body is read completely and handed to the server model.
func HTTPPost(site, url, contentType string, body io.Reader) (*http.Response, error) {
	c := active.Load()
	if c == nil || c.PostFn == nil {
		return http.Post(url, contentType, body)
	}
	var buf bytes.Buffer
	if body != nil {
		io.Copy(&buf, body)
	}
	call := c.before(site, "http.Post", url, "")
	if call.Inject != nil {
		c.after(call, call.Inject)
		return nil, call.Inject
	}
	status, err := c.PostFn(call.Thread, url, buf.Bytes())
	if err != nil {
		c.after(call, err)
		return nil, err
	}
	call.Arg2 = fmt.Sprint(status)
	c.after(call, nil)
	return &http.Response{StatusCode: status, Status: fmt.Sprintf("%d %s", status, http.StatusText(status)),
		Body: io.NopCloser(strings.NewReader("")), Header: http.Header{}, Proto: "HTTP/1.1", ProtoMajor: 1, ProtoMinor: 1}, nil
}

func RandRead(site string, b []byte) (int, error) {
	if c := active.Load(); c != nil && c.RandFn != nil {
		c.RandFn(b)
		return len(b), nil
	}
	return crand.Read(b)
}

func RandIntn(site string, n int) int {
	if c := active.Load(); c != nil && c.IntnFn != nil {
		return c.IntnFn(n)
	}
	return mrand.Intn(n)
}

func TimeNow(site string) time.Time {
	if c := active.Load(); c != nil && c.NowFn != nil {
		return c.NowFn()
	}
	return time.Now()
}

func TimeSince(site string, t time.Time) time.Duration { return TimeNow(site).Sub(t) }
func TimeUntil(site string, t time.Time) time.Duration { return t.Sub(TimeNow(site)) }

func TimeAfterFunc(site string, d time.Duration, f func()) *time.Timer {
	if c := active.Load(); c != nil && c.AfterFn != nil {
		c.AfterFn(d, f)
		t := time.NewTimer(time.Hour)
		t.Stop()
		return t
	}
	return time.AfterFunc(d, f)
}

// Direct runs f on the calling goroutine with this controller installed in
// direct mode (no scheduling: yields are no-ops; plan, log and tick budget
// apply). It recovers a panic raised by f and returns it with its stack.
func (c *Controller) Direct(f func()) (panicVal any, stack string) {
	c.direct = true
	c.Install()
	old := debug.SetPanicOnFault(true)
	defer func() {
		debug.SetPanicOnFault(old)
		Uninstall()
		if r := recover(); r != nil {
			panicVal = r
			stack = string(debug.Stack())
		}
	}()
	f()
	return nil, ""
}
