// Package vmem allocates byte slices that end flush against an inaccessible
// guard page, so that a read or write past the end of the slice faults
// (recoverable with debug.SetPanicOnFault) instead of silently touching the heap.
package vmem

import (
	"os"
	"syscall"
)

// Guarded returns a slice of n bytes whose last byte is immediately followed by
// a PROT_NONE page, and a function releasing it.
func Guarded(n int) ([]byte, func()) {
	ps := os.Getpagesize()
	total := (n+ps-1)/ps*ps + ps
	m, err := syscall.Mmap(-1, 0, total, syscall.PROT_READ|syscall.PROT_WRITE, syscall.MAP_ANON|syscall.MAP_PRIVATE)
	if err != nil {
		panic("vmem: mmap: " + err.Error())
	}
	if err := syscall.Mprotect(m[total-ps:], syscall.PROT_NONE); err != nil {
		panic("vmem: mprotect: " + err.Error())
	}
	start := total - ps - n
	return m[start : start+n : start+n], func() { syscall.Munmap(m) }
}

// GuardedCopy copies b into a guarded slice.
func GuardedCopy(b []byte) ([]byte, func()) {
	g, free := Guarded(len(b))
	copy(g, b)
	return g, free
}
