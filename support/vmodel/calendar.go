package vmodel

import "fmt"

// Calendar arithmetic on day numbers (days since 1970-01-01), independent of
// package time's normalisation: Howard Hinnant's civil-from-days algorithms.

// DaysFromCivil returns the day number of y-m-d in the proleptic Gregorian calendar.
func DaysFromCivil(y, m, d int) int {
	if m <= 2 {
		y--
	}
	era := y / 400
	if y < 0 && y%400 != 0 {
		era = (y - 399) / 400
	}
	yoe := y - era*400
	mp := (m + 9) % 12
	doy := (153*mp+2)/5 + d - 1
	doe := yoe*365 + yoe/4 - yoe/100 + doy
	return era*146097 + doe - 719468
}

// CivilFromDays is the inverse of DaysFromCivil.
func CivilFromDays(z int) (y, m, d int) {
	z += 719468
	era := z / 146097
	if z < 0 && z%146097 != 0 {
		era = (z - 146096) / 146097
	}
	doe := z - era*146097
	yoe := (doe - doe/1460 + doe/36524 - doe/146096) / 365
	y = yoe + era*400
	doy := doe - (365*yoe + yoe/4 - yoe/100)
	mp := (5*doy + 2) / 153
	d = doy - (153*mp+2)/5 + 1
	m = mp + 3
	if m > 12 {
		m -= 12
	}
	if m <= 2 {
		y++
	}
	return
}

// Weekday of a day number: 0 = Sunday (1970-01-01 was a Thursday).
func Weekday(days int) int { return ((days+4)%7 + 7) % 7 }

// DateString renders a day number as YYYY-MM-DD.
func DateString(days int) string {
	y, m, d := CivilFromDays(days)
	return fmt.Sprintf("%04d-%02d-%02d", y, m, d)
}

// Span is the documented counter-file span for a process opening its file on
// day `today` when the week-end setting is weekday `weekend`: it begins today
// and ends on the first later day that falls on that weekday (1..7 days later).
func Span(today, weekend int) (beginDay, endDay int) {
	for k := 1; k <= 7; k++ {
		if Weekday(today+k) == weekend {
			return today, today + k
		}
	}
	panic("unreachable")
}
