// Package vmodel holds small reference models written from the documentation
// and the property statements (not from the code under test): configuration
// approval, weekly aggregation, consent/date gating, calendar arithmetic.
package vmodel

import (
	"sort"
	"strings"
	"time"
	"unicode/utf8"

	"golang.org/x/telemetry/internal/telemetry"
	"golang.org/x/telemetry/internal/verif/vformat"
)

// Build identifies a program build.
type Build struct{ Program, Version, GoVersion, GOOS, GOARCH string }

// CountFile describes one counter file put into local/.
type CountFile struct {
	Base string // file name
	Build
	Begin, End time.Time         // recorded span (UTC)
	Counts     map[string]uint64 // raw record names -> values
	Kind       string            // "ok", "empty" (no counters), "garbage", "truncated", "baddate", "nometa"
	Bytes      []byte            // the file contents as written
}

func (f *CountFile) Readable() bool { return f.Kind == "ok" || f.Kind == "empty" }

// Week is the name of the week a file belongs to: the date of its recorded end,
// as recorded (the library records UTC; a file recorded with another offset
// names its week by the date written in it).
func (f *CountFile) Week() string { return f.End.Format("2006-01-02") }

// ExpandBuckets is the documented counter-expression syntax:
// "chart:{a,b}" names the counters "chart:a" and "chart:b"; a name without
// braces names itself.
func ExpandBuckets(expr string) []string {
	i := strings.IndexByte(expr, '{')
	if i < 0 {
		return []string{expr}
	}
	prefix, rest := expr[:i], expr[i+1:]
	rest = strings.TrimSuffix(rest, "}")
	var out []string
	for _, b := range strings.Split(rest, ",") {
		out = append(out, prefix+b)
	}
	return out
}

func has(list []string, s string) bool {
	for _, x := range list {
		if x == s {
			return true
		}
	}
	return false
}

func program(cfg *telemetry.UploadConfig, name string) *telemetry.ProgramConfig {
	for _, p := range cfg.Programs {
		if p.Name == name {
			return p
		}
	}
	return nil
}

// BuildApproved: program path, version and Go version are listed (what the
// uploader is documented to test; GOOS/GOARCH are the server's concern, see C11).
func BuildApproved(cfg *telemetry.UploadConfig, b Build) bool {
	p := program(cfg, b.Program)
	return p != nil && has(cfg.GoVersion, b.GoVersion) && has(p.Versions, b.Version)
}

// BuildApprovedStrict additionally requires GOOS and GOARCH to be listed
// (the server's rule).
func BuildApprovedStrict(cfg *telemetry.UploadConfig, b Build) bool {
	return BuildApproved(cfg, b) && has(cfg.GOOS, b.GOOS) && has(cfg.GOARCH, b.GOARCH)
}

// CounterRate reports whether the plain counter name is approved for the
// program and at which rate.
func CounterRate(cfg *telemetry.UploadConfig, prog, name string) (float64, bool) {
	p := program(cfg, prog)
	if p == nil {
		return 0, false
	}
	for _, c := range p.Counters {
		if has(ExpandBuckets(c.Name), name) {
			return c.Rate, true
		}
	}
	return 0, false
}

// StackRate reports whether a stack counter (full name, matched by the text
// before the first newline) is approved for the program and at which rate.
func StackRate(cfg *telemetry.UploadConfig, prog, name string) (float64, bool) {
	p := program(cfg, prog)
	if p == nil {
		return 0, false
	}
	prefix := name
	if i := strings.IndexByte(name, '\n'); i >= 0 {
		prefix = name[:i]
	}
	for _, s := range p.Stacks {
		if s.Name == prefix {
			return s.Rate, true
		}
	}
	return 0, false
}

// ProgCounts is the aggregate of one build.
type ProgCounts struct {
	Build
	Counters map[string]int64
	Stacks   map[string]int64
}

// Aggregate sums the readable files per build; stack names are expanded.
// overflow reports that some sum left the int64 range (equality clauses are
// then not applicable).
func Aggregate(files []*CountFile) (out map[Build]*ProgCounts, overflow bool) {
	out = map[Build]*ProgCounts{}
	for _, f := range files {
		if !f.Readable() {
			continue
		}
		p := out[f.Build]
		if p == nil {
			p = &ProgCounts{Build: f.Build, Counters: map[string]int64{}, Stacks: map[string]int64{}}
			out[f.Build] = p
		}
		for raw, v := range f.Counts {
			name := vformat.ExpandStack(raw)
			m := p.Counters
			if strings.Contains(name, "\n") {
				m = p.Stacks
			}
			if v > 1<<62 || m[name] > 1<<62 {
				overflow = true
			}
			m[name] += int64(v)
		}
	}
	return out, overflow
}

// Overflowed returns, per build, the (expanded) names whose sum over the readable files involved a value or a
// partial sum beyond 1<<62: for those the int64 of a report cannot be held to "the sum", every other name's value
// and the presence of every name can.
func Overflowed(files []*CountFile) map[Build]map[string]bool {
	out := map[Build]map[string]bool{}
	sums := map[Build]map[string]int64{}
	for _, f := range files {
		if !f.Readable() {
			continue
		}
		if sums[f.Build] == nil {
			sums[f.Build] = map[string]int64{}
			out[f.Build] = map[string]bool{}
		}
		for raw, v := range f.Counts {
			name := vformat.ExpandStack(raw)
			key := "c" + name
			if strings.Contains(name, "\n") {
				key = "s" + name
			}
			if v > 1<<62 || sums[f.Build][key] > 1<<62 {
				out[f.Build][name] = true
			}
			sums[f.Build][key] += int64(v)
		}
	}
	return out
}

// ZeroValues returns a copy of m in which the values of the names listed in only (of every name if only is nil)
// are replaced by 0, so that DiffProgs compares those names by presence alone.
func ZeroValues(m map[Build]*ProgCounts, only map[Build]map[string]bool) map[Build]*ProgCounts {
	out := map[Build]*ProgCounts{}
	for b, p := range m {
		q := &ProgCounts{Build: b, Counters: map[string]int64{}, Stacks: map[string]int64{}}
		for k, v := range p.Counters {
			if only == nil || only[b][k] {
				v = 0
			}
			q.Counters[k] = v
		}
		for k, v := range p.Stacks {
			if only == nil || only[b][k] {
				v = 0
			}
			q.Stacks[k] = v
		}
		out[b] = q
	}
	return out
}

// AsRendered returns the aggregate with every name as a JSON rendering shows it: each byte that is not part of a
// valid UTF-8 sequence is replaced by U+FFFD (names that become equal are summed). Approval is decided on the raw
// names; only the comparison with a report that was written as JSON uses the rendered ones.
func AsRendered(agg map[Build]*ProgCounts) map[Build]*ProgCounts {
	out, _ := AsRenderedOf(agg, nil)
	return out
}

// AsRenderedOf is AsRendered; names of a build that two different raw names are rendered to (the JSON object then
// holds the key twice, and a reader keeps one of the values) are left out of the result and, if other is given,
// removed from the same build there as well. It reports how many names were left out.
func AsRenderedOf(agg, other map[Build]*ProgCounts) (out map[Build]*ProgCounts, collided int) {
	out = map[Build]*ProgCounts{}
	for b, p := range agg {
		q := &ProgCounts{Build: b, Counters: map[string]int64{}, Stacks: map[string]int64{}}
		for _, kind := range []struct{ from, to map[string]int64 }{{p.Counters, q.Counters}, {p.Stacks, q.Stacks}} {
			raws := map[string]int{}
			for k, v := range kind.from {
				r := renderedName(k)
				kind.to[r] += v
				raws[r]++
			}
			for r, n := range raws {
				if n > 1 {
					delete(kind.to, r)
					collided++
					if o := other[b]; o != nil {
						delete(o.Counters, r)
						delete(o.Stacks, r)
					}
				}
			}
		}
		out[b] = q
	}
	return out, collided
}

func renderedName(s string) string {
	if utf8.ValidString(s) {
		return s
	}
	var sb strings.Builder
	for i := 0; i < len(s); {
		r, size := utf8.DecodeRuneInString(s[i:])
		if r == utf8.RuneError && size == 1 {
			sb.WriteRune('\uFFFD')
		} else {
			sb.WriteString(s[i : i+size])
		}
		i += size
	}
	return sb.String()
}

// Filter is the approved subset of an aggregate for a given X.
func Filter(cfg *telemetry.UploadConfig, agg map[Build]*ProgCounts, x float64) map[Build]*ProgCounts {
	out := map[Build]*ProgCounts{}
	for b, p := range agg {
		if !BuildApproved(cfg, b) {
			continue
		}
		q := &ProgCounts{Build: b, Counters: map[string]int64{}, Stacks: map[string]int64{}}
		for k, v := range p.Counters {
			if r, ok := CounterRate(cfg, b.Program, k); ok && x <= r {
				q.Counters[k] = v
			}
		}
		for k, v := range p.Stacks {
			if r, ok := StackRate(cfg, b.Program, k); ok && x <= r {
				q.Stacks[k] = v
			}
		}
		out[b] = q
	}
	return out
}

// FromReport turns a decoded report into the same shape (a build occurring
// twice is reported through dup).
func FromReport(r *telemetry.Report) (out map[Build]*ProgCounts, dup bool) {
	out = map[Build]*ProgCounts{}
	for _, p := range r.Programs {
		b := Build{p.Program, p.Version, p.GoVersion, p.GOOS, p.GOARCH}
		if _, ok := out[b]; ok {
			dup = true
		}
		q := &ProgCounts{Build: b, Counters: map[string]int64{}, Stacks: map[string]int64{}}
		for k, v := range p.Counters {
			q.Counters[k] = v
		}
		for k, v := range p.Stacks {
			q.Stacks[k] = v
		}
		out[b] = q
	}
	return out, dup
}

// DiffProgs describes the difference between two aggregates ("" = equal).
func DiffProgs(want, got map[Build]*ProgCounts) string {
	var d []string
	for b, w := range want {
		g, ok := got[b]
		if !ok {
			d = append(d, "missing program "+fmtBuild(b))
			continue
		}
		d = append(d, diffMap("counter", b, w.Counters, g.Counters)...)
		d = append(d, diffMap("stack", b, w.Stacks, g.Stacks)...)
	}
	for b := range got {
		if _, ok := want[b]; !ok {
			d = append(d, "unexpected program "+fmtBuild(b))
		}
	}
	sort.Strings(d)
	if len(d) > 8 {
		d = append(d[:8], "...")
	}
	return strings.Join(d, "; ")
}

func fmtBuild(b Build) string {
	return b.Program + "@" + b.Version + " " + b.GoVersion + " " + b.GOOS + "/" + b.GOARCH
}

func diffMap(kind string, b Build, want, got map[string]int64) []string {
	var d []string
	for k, v := range want {
		g, ok := got[k]
		switch {
		case !ok:
			d = append(d, kind+" "+quote(k)+" of "+b.Program+" missing")
		case g != v:
			d = append(d, kind+" "+quote(k)+" of "+b.Program+" value differs")
		}
	}
	for k := range got {
		if _, ok := want[k]; !ok {
			d = append(d, kind+" "+quote(k)+" of "+b.Program+" must not be there")
		}
	}
	return d
}

func quote(s string) string {
	if len(s) > 60 {
		s = s[:60] + "..."
	}
	return "\"" + strings.ReplaceAll(s, "\n", "\\n") + "\""
}

// Gate is the consent/date model of the statement of C02 for one week.
type Gate struct {
	Mode       string    // first word of the mode file ("" = unreadable -> local)
	AsOf       time.Time // zero = none recorded
	Start      time.Time // run start
	SampleRate float64
}

// EffectiveMode maps a mode-file reading to the documented behaviour:
// "on", "off", everything else (including unreadable) behaves as "local".
func EffectiveMode(mode string) string {
	switch mode {
	case "on", "off":
		return mode
	}
	return "local"
}

// WeekUploadable: may a report for the week ending at weekEnd (midnight UTC),
// whose earliest data begins at earliestBegin, be made uploadable with this X?
func (g Gate) WeekUploadable(weekEnd, earliestBegin time.Time, x float64) bool {
	if g.Mode != "on" {
		return false
	}
	if g.Start.Sub(weekEnd) > 21*24*time.Hour {
		return false
	}
	if g.SampleRate > 0 && x > g.SampleRate {
		return false
	}
	if !g.AsOf.IsZero() && !g.AsOf.Before(earliestBegin) {
		return false
	}
	return true
}

// ReportSendable: may an uploadable report named by week (YYYY-MM-DD) be sent?
func (g Gate) ReportSendable(week string) bool {
	if g.Mode != "on" {
		return false
	}
	if week > g.Start.UTC().Format("2006-01-02") {
		return false // in the future
	}
	if !g.AsOf.IsZero() {
		w, err := time.Parse("2006-01-02", week)
		if err == nil && !g.AsOf.Before(w) {
			return false
		}
	}
	return true
}

// ReportValid is the documented validity of an uploaded report: a real
// calendar date as week, a semantic-version config, a non-zero X, and only
// approved contents (strict build rule).
func ReportValid(cfg *telemetry.UploadConfig, r *telemetry.Report) (bool, string) {
	if len(r.Week) != 10 {
		return false, "week"
	}
	if _, err := time.Parse("2006-01-02", r.Week); err != nil {
		return false, "week"
	}
	if !canonicalSemver(r.Config) {
		return false, "config"
	}
	if r.X == 0 {
		return false, "x"
	}
	for _, p := range r.Programs {
		if p == nil {
			return false, "null program"
		}
		if !BuildApprovedStrict(cfg, Build{p.Program, p.Version, p.GoVersion, p.GOOS, p.GOARCH}) {
			return false, "build"
		}
		for c := range p.Counters {
			if _, ok := CounterRate(cfg, p.Program, c); !ok {
				return false, "counter " + c
			}
		}
		for s := range p.Stacks {
			if _, ok := StackRate(cfg, p.Program, s); !ok {
				return false, "stack " + s
			}
		}
	}
	return true, ""
}

// canonicalSemver: vMAJOR.MINOR.PATCH[-pre][+build] with numeric parts without leading zeros.
func canonicalSemver(v string) bool {
	if !strings.HasPrefix(v, "v") {
		return false
	}
	core := v[1:]
	if i := strings.IndexAny(core, "-+"); i >= 0 {
		if i+1 >= len(core) {
			return false
		}
		core = core[:i]
	}
	parts := strings.Split(core, ".")
	if len(parts) != 3 {
		return false
	}
	for _, p := range parts {
		if p == "" || (len(p) > 1 && p[0] == '0') {
			return false
		}
		for _, c := range p {
			if c < '0' || c > '9' {
				return false
			}
		}
	}
	return true
}
