// Package vsnap takes recursive snapshots of directory trees (names, kinds,
// sizes, SHA-256) so that "nothing changed" can be checked exactly.
package vsnap

import (
	"crypto/sha256"
	"fmt"
	"io/fs"
	"os"
	"path/filepath"
	"sort"
	"strings"
)

// Snap maps a slash-separated relative path to "dir" or "<size>:<sha256>".
type Snap map[string]string

// Take snapshots root (a missing root gives an empty snapshot).
func Take(root string) Snap {
	s := Snap{}
	filepath.WalkDir(root, func(p string, d fs.DirEntry, err error) error {
		if err != nil {
			return nil
		}
		rel, _ := filepath.Rel(root, p)
		rel = filepath.ToSlash(rel)
		if rel == "." {
			return nil
		}
		if d.IsDir() {
			s[rel] = "dir"
			return nil
		}
		if d.Type()&fs.ModeSymlink != 0 {
			t, _ := os.Readlink(p)
			s[rel] = "symlink:" + t
			return nil
		}
		b, err := os.ReadFile(p)
		if err != nil {
			s[rel] = "unreadable"
			return nil
		}
		s[rel] = fmt.Sprintf("%d:%x", len(b), sha256.Sum256(b))
		return nil
	})
	return s
}

// Diff lists the differences between two snapshots, restricted to paths for
// which keep returns true (nil = all).
func Diff(before, after Snap, keep func(path string) bool) []string {
	var d []string
	for p, v := range before {
		if keep != nil && !keep(p) {
			continue
		}
		w, ok := after[p]
		switch {
		case !ok:
			d = append(d, "removed "+p)
		case w != v:
			d = append(d, "changed "+p)
		}
	}
	for p := range after {
		if keep != nil && !keep(p) {
			continue
		}
		if _, ok := before[p]; !ok {
			d = append(d, "created "+p)
		}
	}
	sort.Strings(d)
	return d
}

// IsCounterOrReport reports whether a path names a counter file or a report
// (the data files of the telemetry directory).
func IsCounterOrReport(p string) bool {
	return strings.HasSuffix(p, ".count") || strings.HasSuffix(p, ".json")
}
