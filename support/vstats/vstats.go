// Package vstats records what a verification test actually explored and
// decides whether an oracle failure is a listed known finding.
//
// It is injected into the module under test through the build overlay
// (golang.org/x/telemetry/internal/verif/vstats) and has no dependency
// outside the standard library.
//
// Protocol with the driver (/verif/bin/vcheck):
//
//	VERIF_STATS  path of the JSON file Flush writes (one per test process)
//	VERIF_PROP   property id (C01..C19)
//	VERIF_KNOWN  path of /verif/known-findings.txt
package vstats

import (
	"bufio"
	"encoding/json"
	"fmt"
	"hash/fnv"
	"os"
	"sort"
	"strings"
	"sync"
)

const (
	maxSamples    = 12
	maxSampleLen  = 1500
	sampleSpacing = 97 // after the first few, keep every n-th non-trivial case
)

type state struct {
	mu          sync.Mutex
	Evaluations int64             `json:"evaluations"`
	Nontrivial  int64             `json:"nontrivial"`
	Labels      map[string]int64  `json:"labels"`
	Notes       map[string]int64  `json:"notes"`
	Known       map[string]int64  `json:"known"`      // signature -> times hit
	KnownWhat   map[string]string `json:"known_what"` // signature -> description
	Samples     []string          `json:"samples"`
	Hashes      []uint64          `json:"hashes"` // distinct non-trivial case hashes
	seen        map[uint64]struct{}
}

var st = &state{
	Labels:    map[string]int64{},
	Notes:     map[string]int64{},
	Known:     map[string]int64{},
	KnownWhat: map[string]string{},
	seen:      map[uint64]struct{}{},
}

// Hash is the 64-bit FNV-1a hash used to tell cases apart.
func Hash(s string) uint64 {
	h := fnv.New64a()
	h.Write([]byte(s))
	return h.Sum64()
}

// Case records one generated case. desc is a canonical rendering of the case
// (its hash decides distinctness, and it is what ends up in the evidence
// samples); nontrivial is the property's stated rule evaluated on this case.
func Case(desc string, nontrivial bool, labels ...string) {
	st.mu.Lock()
	defer st.mu.Unlock()
	st.Evaluations++
	for _, l := range labels {
		if l != "" {
			st.Labels[l]++
		}
	}
	if !nontrivial {
		return
	}
	st.Nontrivial++
	h := Hash(desc)
	if _, ok := st.seen[h]; ok {
		return
	}
	st.seen[h] = struct{}{}
	st.Hashes = append(st.Hashes, h)
	n := len(st.Hashes)
	if len(st.Samples) < 4 || (n%sampleSpacing == 0 && len(st.Samples) < maxSamples) {
		if len(desc) > maxSampleLen {
			desc = desc[:maxSampleLen] + fmt.Sprintf("...(%d bytes)", len(desc))
		}
		st.Samples = append(st.Samples, desc)
	}
}

// Label bumps a label counter without recording a case.
func Label(l string) { Note(l, 1) }

// Note adds n to a named measured quantity (steps, instrumented sites, ...).
func Note(key string, n int64) {
	st.mu.Lock()
	st.Notes[key] += n
	st.mu.Unlock()
}

// NoteMax keeps the maximum of a named quantity.
func NoteMax(key string, n int64) {
	st.mu.Lock()
	if n > st.Notes[key] {
		st.Notes[key] = n
	}
	st.mu.Unlock()
}

var (
	knownOnce sync.Once
	knownSigs map[string]string // signature -> what
)

func loadKnown() {
	knownSigs = map[string]string{}
	path, prop := os.Getenv("VERIF_KNOWN"), os.Getenv("VERIF_PROP")
	if path == "" || prop == "" {
		return
	}
	f, err := os.Open(path)
	if err != nil {
		return
	}
	defer f.Close()
	sc := bufio.NewScanner(f)
	sc.Buffer(make([]byte, 1<<20), 1<<20)
	for sc.Scan() {
		line := strings.TrimSpace(sc.Text())
		// finding: property=<id> signature=<sig> <what fails>
		if !strings.HasPrefix(line, "finding:") {
			continue // "fixed:" entries suppress nothing
		}
		fields := strings.Fields(line)
		var p, sig string
		var rest []string
		for _, f := range fields[1:] {
			switch {
			case strings.HasPrefix(f, "property=") && p == "":
				p = strings.TrimPrefix(f, "property=")
			case strings.HasPrefix(f, "signature=") && sig == "":
				sig = strings.TrimPrefix(f, "signature=")
			default:
				rest = append(rest, f)
			}
		}
		if p == prop && sig != "" {
			knownSigs[sig] = strings.Join(rest, " ")
		}
	}
}

// Known reports whether an oracle failure with this signature is listed as a
// known finding for the current property; if so the hit is counted (the driver
// prints one KNOWN-FINDING line per signature) and the caller must discard the
// case instead of failing. Signatures must not contain blanks.
func Known(sig string) bool {
	knownOnce.Do(loadKnown)
	what, ok := knownSigs[sig]
	if !ok {
		return false
	}
	st.mu.Lock()
	st.Known[sig]++
	st.KnownWhat[sig] = what
	st.mu.Unlock()
	return true
}

// IsListed is Known without counting (used by generators that exclude a
// confirmed class by construction).
func IsListed(sig string) bool {
	knownOnce.Do(loadKnown)
	_, ok := knownSigs[sig]
	return ok
}

// Flush writes the statistics file. It is safe to call more than once; the
// last call wins. Tests call it in a defer.
func Flush() {
	path := os.Getenv("VERIF_STATS")
	if path == "" {
		return
	}
	st.mu.Lock()
	defer st.mu.Unlock()
	sort.Slice(st.Hashes, func(i, j int) bool { return st.Hashes[i] < st.Hashes[j] })
	data, err := json.Marshal(st)
	if err != nil {
		return
	}
	tmp := path + ".tmp"
	if os.WriteFile(tmp, data, 0666) == nil {
		os.Rename(tmp, path)
	}
}
