// Package c is a call-chain helper with a dotted element in the middle of its import path.
package c

type T struct{ N int }

//go:noinline
func F(next func()) { next() }

//go:noinline
func (t T) M(next func()) { next() }

//go:noinline
func (t *T) PM(next func()) { next() }

//go:noinline
func G[X any](x X, next func()) { next() }

// Inl is small enough to be inlined into its caller.
func Inl(next func()) { next() }

//go:noinline
func Closure(next func()) {
	func() {
		next()
	}()
}
