// Package c is a call-chain helper with a dotted element in the middle of its import path.
package c

type T struct{ N int }

//go:noinline
func F(next func()) { next() }

//go:noinline
func (t T) M(next func()) { next() }

//go:noinline
func (t *T) PM(next func()) { next() }

//go:noinline
func G[X any](x X, next func()) { next() }

// Inl is small enough to be inlined into its caller.
func Inl(next func()) { next() }

//go:noinline
func Closure(next func()) {
	func() {
		next()
	}()
}

// FG is a plain function whose callee is an instantiated generic function of
// the same package (adjacent frames of one package, the inner one generic).
//
//go:noinline
func FG(next func()) { G(1.5, next) }

// GF is a generic function whose callee is a plain function of the same package.
//
//go:noinline
func GF[X any](x X, next func()) { F(next) }

// Box is a generic type; its method's callee and caller (FBox) are plain
// functions of the same package.
type Box[X any] struct{ V X }

//go:noinline
func (b *Box[X]) M(next func()) { F(next) }

//go:noinline
func FBox(next func()) { (&Box[string]{}).M(next) }

// GG is a generic function calling another instantiated generic function.
//
//go:noinline
func GG[X any](x X, next func()) { GF([]X{x}, next) }

// Via calls inner(next): the call site inside Via is one program counter, but the
// callee - the frame printed just before Via's - varies with inner (a function
// of this package, or of another one).
//
//go:noinline
func Via(inner func(func()), next func()) { inner(next) }
