// Package disp runs generated call chains: element i of the chain selects the
// helper that is called at depth i. Every helper has exactly one call site
// here, so equal chains produce equal program-counter sequences and chains
// that differ at some position differ in the corresponding frame.
package disp

import (
	c "golang.org/x/telemetry/internal/verif/vstk/a.b/c"
	ted "golang.org/x/telemetry/internal/verif/vstk/dot.ted"
	"golang.org/x/telemetry/internal/verif/vstk/long"
	"golang.org/x/telemetry/internal/verif/vstk/uni"
	"golang.org/x/telemetry/internal/verif/vstk/v2"
)

// NumSteps is the number of distinct chain elements.
const NumSteps = 16 + long.N + uni.N + 3 + 3

// Names describes the chain elements (for evidence samples).
var Names = [...]string{"c.F", "c.T.M", "c.(*T).PM", "c.G[int]", "c.G[string]", "c.Inl", "c.Closure", "v2.F", "v2.Long.method", "v2.G[int,string]", "ted.F", "ted.S.M", "c.FG>G[float64]", "c.GF[int]>F", "c.FBox>(*Box[string]).M>F", "c.GG[int]>GF[[]int]>F",
	"long.00", "long.01", "long.02", "long.03", "long.04", "long.05", "long.06", "long.07", "long.08", "long.09", "long.10", "long.11",
	"uni.2byte", "uni.3byte", "uni.mixed",
	"v2.Deep(60)", "v2.Deep(150)", "v2.Deep(230)",
	"c.Via>c.F", "c.Via>v2.F", "c.Via>ted.F"}

// Run executes the chain from position i and finally calls leaf.
func Run(chain []int, i int, leaf func()) {
	if i == len(chain) {
		leaf()
		return
	}
	next := func() { Run(chain, i+1, leaf) }
	switch chain[i] {
	case 0:
		c.F(next)
	case 1:
		c.T{}.M(next)
	case 2:
		(&c.T{}).PM(next)
	case 3:
		c.G(1, next)
	case 4:
		c.G("s", next)
	case 5:
		c.Inl(next)
	case 6:
		c.Closure(next)
	case 7:
		v2.F(next)
	case 8:
		v2.Long_receiver_type_name_to_make_frames_longer{}.A_method_with_a_rather_long_name_for_truncation(next)
	case 9:
		v2.G(1, "s", next)
	case 10:
		ted.F(next)
	case 11:
		ted.S{}.M(next)
	case 12:
		c.FG(next)
	case 13:
		c.GF(1, next)
	case 14:
		c.FBox(next)
	case 15:
		c.GG(1, next)
	case 16, 17, 18, 19, 20, 21, 22, 23, 24, 25, 26, 27:
		long.Call(chain[i]-16, next)
	case 16 + long.N, 16 + long.N + 1, 16 + long.N + 2:
		uni.Call(chain[i]-16-long.N, next)
	case 16 + long.N + uni.N, 16 + long.N + uni.N + 1, 16 + long.N + uni.N + 2:
		v2.Deep([]int{60, 150, 230}[chain[i]-16-long.N-uni.N], next)
	case 16 + long.N + uni.N + 3:
		c.Via(c.F, next)
	case 16 + long.N + uni.N + 4:
		c.Via(v2.F, next)
	default:
		c.Via(ted.F, next)
	}
}
