// Package ted is a call-chain helper whose last import path element contains a dot.
package ted

//go:noinline
func F(next func()) { next() }

type S struct{}

//go:noinline
func (S) M(next func()) { next() }
