// Package uni holds call-chain helpers whose names consist mostly of
// multi-byte runes and are about as long (in bytes) as those of package long,
// so that a cut of an encoded stack at the name limit falls among them: inside a
// rune when bytes are counted, beyond the limit when characters are.
package uni

//go:noinline
func Ünïcödé_fünctiön_nämé_wïth_twö_býté_rünés_éééééééééééééééééééééééééééééééééééééééééééééééééééééééééééééééééééééééééééééééééééééééééééééééééééééééééééééé(next func()) {
	next()
}

//go:noinline
func 世界_三字节_函数名称_用于测试截断位置_世界世界世界世界世界世界世界世界世界世界世界世界世界世界世界世界世界世界世界世界世界世界世界世界世界世界世界世界世界世界世界世界世界世界世界世界世界世界(next func()) {
	next()
}

//go:noinline
func Mixed_é世_é世_é世_é世_é世_é世_é世_é世_é世_é世_é世_é世_é世_é世_é世_é世_é世_é世_é世_é世_é世_é世_é世_é世_é世_é世_é世_é世_é世_é世_é世_é世_é世_é世_é世_é世_é世_é世_é世_é世_é世_é世_é世_é世_é世_é世_é世_é世_é世_é世_é世_é世_é世_é世_é世_é世_é世_é世_é世_é世_x(next func()) {
	next()
}

// N is the number of helpers.
const N = 3

// Call runs helper i.
func Call(i int, next func()) {
	switch i {
	case 0:
		Ünïcödé_fünctiön_nämé_wïth_twö_býté_rünés_éééééééééééééééééééééééééééééééééééééééééééééééééééééééééééééééééééééééééééééééééééééééééééééééééééééééééééééé(next)
	case 1:
		世界_三字节_函数名称_用于测试截断位置_世界世界世界世界世界世界世界世界世界世界世界世界世界世界世界世界世界世界世界世界世界世界世界世界世界世界世界世界世界世界世界世界世界世界世界世界世界世界(next)
	default:
		Mixed_é世_é世_é世_é世_é世_é世_é世_é世_é世_é世_é世_é世_é世_é世_é世_é世_é世_é世_é世_é世_é世_é世_é世_é世_é世_é世_é世_é世_é世_é世_é世_é世_é世_é世_é世_é世_é世_é世_é世_é世_é世_é世_é世_é世_é世_é世_é世_é世_é世_é世_é世_é世_é世_é世_é世_é世_é世_é世_é世_é世_x(next)
	}
}
