// Package uni holds call-chain helpers whose names consist mostly of
// multi-byte runes, so that a byte-wise cut of an encoded stack can fall
// inside a rune.
package uni

//go:noinline
func Ünïcödé_fünctiön_nämé_wïth_twö_býté_rünés_ééééééééééééééééééééé(next func()) {
	next()
}

//go:noinline
func 世界_三字节_函数名称_用于测试截断位置_世界世界世界世界世界世界(next func()) {
	next()
}

//go:noinline
func Mixed_é世_é世_é世_é世_é世_é世_é世_é世_é世_é世x(next func()) { next() }

// N is the number of helpers.
const N = 3

// Call runs helper i.
func Call(i int, next func()) {
	switch i {
	case 0:
		Ünïcödé_fünctiön_nämé_wïth_twö_býté_rünés_ééééééééééééééééééééé(next)
	case 1:
		世界_三字节_函数名称_用于测试截断位置_世界世界世界世界世界世界(next)
	default:
		Mixed_é世_é世_é世_é世_é世_é世_é世_é世_é世_é世x(next)
	}
}
