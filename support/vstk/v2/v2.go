// Package v2 is a call-chain helper whose import path ends in a major-version element.
package v2

type Long_receiver_type_name_to_make_frames_longer struct{}

//go:noinline
func F(next func()) { next() }

//go:noinline
func (Long_receiver_type_name_to_make_frames_longer) A_method_with_a_rather_long_name_for_truncation(next func()) {
	next()
}

//go:noinline
func G[K comparable, V any](k K, v V, next func()) { next() }
