// Package v2 is a call-chain helper whose import path ends in a major-version element.
package v2

type Long_receiver_type_name_to_make_frames_longer struct{}

//go:noinline
func F(next func()) { next() }

//go:noinline
func (Long_receiver_type_name_to_make_frames_longer) A_method_with_a_rather_long_name_for_truncation(next func()) {
	next()
}

//go:noinline
func G[K comparable, V any](k K, v V, next func()) { next() }

// Receiver_type_with_a_very_long_name_zzzzzzzzzzzzzzzzzzzzzzzzzzzzzzzzzzzzzzzzzzzzzzzzzzzzzzzzzzzzzzzzzzzzzzzzzzzzzzzzzzzzzzzzzzzzzzzzzzzzzzzzzzzzzzzzzzzzzzzzzzzzzzzzzzzzzzzzzzzzzzzzzzzzzzzzzzzzzzzzzzzzzzzzzzzzzzzzzzzzzzzzzzzzzzzzzzzzzzzzzzzzzzzzzzzzzzzzzzzzzzzzzzzzzzzzzzzzzzzzzzzzzzzzzzzzzzzzzzzzzzzzzzzzzzzzzzzzzzzzzzzzzzzzzzzzzzzzzzzzzzzzzzzzzzzzzzzzzzzzzzzzzzzzzzzzzzzzzzzzzzzzzzzzzzzzzzzzzzzzzzzz has a name of 400 bytes: the path shared by consecutive frames of its recursive method is long,
// so a few hundred such frames abbreviate to a short name that expands to tens of kilobytes.
type Receiver_type_with_a_very_long_name_zzzzzzzzzzzzzzzzzzzzzzzzzzzzzzzzzzzzzzzzzzzzzzzzzzzzzzzzzzzzzzzzzzzzzzzzzzzzzzzzzzzzzzzzzzzzzzzzzzzzzzzzzzzzzzzzzzzzzzzzzzzzzzzzzzzzzzzzzzzzzzzzzzzzzzzzzzzzzzzzzzzzzzzzzzzzzzzzzzzzzzzzzzzzzzzzzzzzzzzzzzzzzzzzzzzzzzzzzzzzzzzzzzzzzzzzzzzzzzzzzzzzzzzzzzzzzzzzzzzzzzzzzzzzzzzzzzzzzzzzzzzzzzzzzzzzzzzzzzzzzzzzzzzzzzzzzzzzzzzzzzzzzzzzzzzzzzzzzzzzzzzzzzzzzzzzzzzzzzzzzzzz struct{}

// Rec calls itself n more times and then next.
//
//go:noinline
func (r Receiver_type_with_a_very_long_name_zzzzzzzzzzzzzzzzzzzzzzzzzzzzzzzzzzzzzzzzzzzzzzzzzzzzzzzzzzzzzzzzzzzzzzzzzzzzzzzzzzzzzzzzzzzzzzzzzzzzzzzzzzzzzzzzzzzzzzzzzzzzzzzzzzzzzzzzzzzzzzzzzzzzzzzzzzzzzzzzzzzzzzzzzzzzzzzzzzzzzzzzzzzzzzzzzzzzzzzzzzzzzzzzzzzzzzzzzzzzzzzzzzzzzzzzzzzzzzzzzzzzzzzzzzzzzzzzzzzzzzzzzzzzzzzzzzzzzzzzzzzzzzzzzzzzzzzzzzzzzzzzzzzzzzzzzzzzzzzzzzzzzzzzzzzzzzzzzzzzzzzzzzzzzzzzzzzzzzzzzzzz) Rec(n int, next func()) {
	if n <= 0 {
		next()
		return
	}
	r.Rec(n-1, next)
}

// Deep runs next below n+1 frames of Rec.
func Deep(n int, next func()) {
	Receiver_type_with_a_very_long_name_zzzzzzzzzzzzzzzzzzzzzzzzzzzzzzzzzzzzzzzzzzzzzzzzzzzzzzzzzzzzzzzzzzzzzzzzzzzzzzzzzzzzzzzzzzzzzzzzzzzzzzzzzzzzzzzzzzzzzzzzzzzzzzzzzzzzzzzzzzzzzzzzzzzzzzzzzzzzzzzzzzzzzzzzzzzzzzzzzzzzzzzzzzzzzzzzzzzzzzzzzzzzzzzzzzzzzzzzzzzzzzzzzzzzzzzzzzzzzzzzzzzzzzzzzzzzzzzzzzzzzzzzzzzzzzzzzzzzzzzzzzzzzzzzzzzzzzzzzzzzzzzzzzzzzzzzzzzzzzzzzzzzzzzzzzzzzzzzzzzzzzzzzzzzzzzzzzzzzzzzzzzz{}.Rec(n, next)
}
