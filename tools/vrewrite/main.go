// vrewrite produces instrumented copies of the source files of one package of
// the repository under test. Call expressions are selected by the type checker
// (never by name alone) and rewritten so that they pass through
// golang.org/x/telemetry/internal/verif/vhook:
//
//	atomics  methods of sync/atomic types        x.M(a)            -> vhook.P(site, &x).M(a)
//	         sync/atomic package functions       atomic.F(p, a)    -> atomic.F(vhook.Y(site, p), a)
//	sync     (*sync.Mutex).Lock/Unlock/TryLock   mu.Lock()         -> vhook.Lock(site, &mu)
//	         (*sync.Once).Do                     o.Do(f)           -> vhook.OnceDo(site, &o, f)
//	fs       os.OpenFile, ReadFile, ...          os.F(a...)        -> vhook.OsF(site, a...)
//	         (*os.File).Write, WriteAt, ...      f.M(a...)         -> vhook.FileM(site, f, a...)
//	         package-level func variables listed in -vars (memmap, munmap)
//	                                             v(a)              -> vhook.CallVar(site, "v", v, a)
//	http     net/http.Post                       http.Post(a...)   -> vhook.HTTPPost(site, a...)
//	rand     crypto/rand.Read, math/rand.Intn    rand.Read(b)      -> vhook.RandRead(site, b), vhook.RandIntn
//	time     time.Now/Since/Until/AfterFunc      time.Now()        -> vhook.Now(site) ...
//	loops    every for/range body gets           vhook.Tick(site) as its first statement
//
// Anything in the selected classes whose shape it does not understand (method
// values, calls through interfaces, ...) makes it fail loudly (exit 2) rather
// than leave a site silently un-instrumented.
package main

import (
	"bytes"
	"encoding/json"
	"flag"
	"fmt"
	"go/ast"
	"go/format"
	"go/token"
	"go/types"
	"os"
	"path/filepath"
	"strconv"
	"strings"

	"golang.org/x/tools/go/ast/astutil"
	"golang.org/x/tools/go/packages"
)

const hookPath = "golang.org/x/telemetry/internal/verif/vhook"

var osFuncs = map[string]bool{"OpenFile": true, "ReadFile": true, "WriteFile": true, "ReadDir": true, "Stat": true,
	"Remove": true, "MkdirAll": true, "Open": true, "Create": true, "Rename": true, "RemoveAll": true, "Mkdir": true}
var fileMethods = map[string]bool{"Write": true, "WriteAt": true, "Stat": true, "Close": true, "Read": true, "ReadAt": true,
	"WriteString": true, "Truncate": true, "Sync": true}
var timeFuncs = map[string]bool{"Now": true, "Since": true, "Until": true, "AfterFunc": true}

func fatal(format string, a ...any) {
	fmt.Fprintf(os.Stderr, "vrewrite: "+format+"\n", a...)
	os.Exit(2)
}

func main() {
	repo := flag.String("repo", "/repo", "module root")
	pkgPat := flag.String("pkg", "", "package pattern (one package)")
	out := flag.String("out", "", "output directory")
	mode := flag.String("mode", "atomics,sync,loops", "comma separated classes: atomics,sync,fs,http,rand,time,loops")
	vars := flag.String("vars", "memmap,munmap", "package-level func variables whose calls are intercepted (fs class)")
	only := flag.String("files", "", "comma separated base names to restrict to")
	flag.Parse()
	modes := map[string]bool{}
	for _, m := range strings.Split(*mode, ",") {
		modes[strings.TrimSpace(m)] = true
	}
	varSet := map[string]bool{}
	for _, v := range strings.Split(*vars, ",") {
		if v != "" {
			varSet[v] = true
		}
	}
	onlySet := map[string]bool{}
	for _, v := range strings.Split(*only, ",") {
		if v != "" {
			onlySet[v] = true
		}
	}

	cfg := &packages.Config{Mode: packages.NeedName | packages.NeedFiles | packages.NeedCompiledGoFiles |
		packages.NeedSyntax | packages.NeedTypes | packages.NeedTypesInfo | packages.NeedImports | packages.NeedDeps,
		Dir: *repo, BuildFlags: []string{"-tags=verif"}}
	pkgs, err := packages.Load(cfg, *pkgPat)
	if err != nil {
		fatal("load: %v", err)
	}
	if len(pkgs) != 1 {
		fatal("pattern %q matched %d packages", *pkgPat, len(pkgs))
	}
	p := pkgs[0]
	if len(p.Errors) > 0 {
		fatal("package errors: %v", p.Errors)
	}
	overlay := map[string]string{}
	sites := map[string]int{}
	if err := os.MkdirAll(*out, 0777); err != nil {
		fatal("%v", err)
	}

	for i, f := range p.Syntax {
		fname := p.CompiledGoFiles[i]
		if len(onlySet) > 0 && !onlySet[filepath.Base(fname)] {
			continue
		}
		changed := false
		// enclosing returns the name of the function declaration containing pos
		enclosing := func(pos token.Pos) string {
			for _, d := range f.Decls {
				if fd, ok := d.(*ast.FuncDecl); ok && fd.Pos() <= pos && pos < fd.End() {
					return fd.Name.Name
				}
			}
			return "-"
		}
		siteLit := func(n ast.Node, what string) ast.Expr {
			pos := p.Fset.Position(n.Pos())
			return &ast.BasicLit{Kind: token.STRING, Value: strconv.Quote(fmt.Sprintf("%s:%d:%s:%s", filepath.Base(pos.Filename), pos.Line, enclosing(n.Pos()), what))}
		}
		hook := func(name string) ast.Expr {
			return &ast.SelectorExpr{X: ast.NewIdent("vhook"), Sel: ast.NewIdent(name)}
		}
		count := func(kind string) { sites[kind]++; changed = true }

		// handled records selector expressions that were part of a rewritten call,
		// so that the "unhandled shape" scan below does not complain about them.
		handled := map[*ast.SelectorExpr]bool{}

		astutil.Apply(f, nil, func(c *astutil.Cursor) bool {
			switch n := c.Node().(type) {
			case *ast.ForStmt:
				if modes["loops"] {
					n.Body.List = append([]ast.Stmt{&ast.ExprStmt{X: &ast.CallExpr{Fun: hook("Tick"), Args: []ast.Expr{siteLit(n, "for")}}}}, n.Body.List...)
					count("loops")
				}
			case *ast.RangeStmt:
				if modes["loops"] {
					n.Body.List = append([]ast.Stmt{&ast.ExprStmt{X: &ast.CallExpr{Fun: hook("Tick"), Args: []ast.Expr{siteLit(n, "range")}}}}, n.Body.List...)
					count("loops")
				}
			case *ast.CallExpr:
				switch fun := n.Fun.(type) {
				case *ast.Ident:
					// call through a package-level func variable
					if modes["fs"] && varSet[fun.Name] {
						if v, ok := p.TypesInfo.Uses[fun].(*types.Var); ok && v.Parent() == p.Types.Scope() {
							if len(n.Args) != 1 {
								fatal("%s: call of %s with %d args", p.Fset.Position(n.Pos()), fun.Name, len(n.Args))
							}
							sig, ok := v.Type().Underlying().(*types.Signature)
							if !ok || sig.Results().Len() < 1 || sig.Results().Len() > 2 {
								fatal("%s: variable %s has unsupported type %s", p.Fset.Position(n.Pos()), fun.Name, v.Type())
							}
							c.Replace(&ast.CallExpr{Fun: hook(fmt.Sprintf("CallVar%d", sig.Results().Len())), Args: []ast.Expr{siteLit(n, fun.Name),
								&ast.BasicLit{Kind: token.STRING, Value: strconv.Quote(fun.Name)}, fun, n.Args[0]}})
							count("vars")
						}
					}
				case *ast.SelectorExpr:
					// package-qualified function?
					if id, ok := fun.X.(*ast.Ident); ok {
						if pn, ok := p.TypesInfo.Uses[id].(*types.PkgName); ok {
							path := pn.Imported().Path()
							name := fun.Sel.Name
							switch {
							case path == "sync/atomic" && modes["atomics"]:
								if _, isFunc := p.TypesInfo.Uses[fun.Sel].(*types.Func); isFunc && len(n.Args) >= 1 {
									n.Args[0] = &ast.CallExpr{Fun: hook("Y"), Args: []ast.Expr{siteLit(n, "atomic."+name), n.Args[0]}}
									handled[fun] = true
									count("atomics")
								}
							case path == "os" && modes["fs"] && osFuncs[name]:
								n.Fun = hook("Os" + name)
								n.Args = append([]ast.Expr{siteLit(n, "os."+name)}, n.Args...)
								count("fs")
							case path == "net/http" && modes["http"] && name == "Post":
								n.Fun = hook("HTTPPost")
								n.Args = append([]ast.Expr{siteLit(n, "http.Post")}, n.Args...)
								count("http")
							case path == "crypto/rand" && modes["rand"] && name == "Read":
								n.Fun = hook("RandRead")
								n.Args = append([]ast.Expr{siteLit(n, "rand.Read")}, n.Args...)
								count("rand")
							case path == "math/rand" && modes["rand"] && name == "Intn":
								n.Fun = hook("RandIntn")
								n.Args = append([]ast.Expr{siteLit(n, "rand.Intn")}, n.Args...)
								count("rand")
							case path == "time" && modes["time"] && timeFuncs[name]:
								n.Fun = hook("Time" + name)
								n.Args = append([]ast.Expr{siteLit(n, "time."+name)}, n.Args...)
								count("time")
							}
							return true
						}
					}
					sel := p.TypesInfo.Selections[fun]
					if sel == nil {
						return true
					}
					fn, ok := sel.Obj().(*types.Func)
					if !ok || fn.Pkg() == nil {
						return true
					}
					recvT := p.TypesInfo.TypeOf(fun.X)
					_, isPtr := recvT.Underlying().(*types.Pointer)
					addr := func() ast.Expr {
						if isPtr {
							return fun.X
						}
						return &ast.UnaryExpr{Op: token.AND, X: fun.X}
					}
					recvName := ""
					if r := fn.Type().(*types.Signature).Recv(); r != nil {
						recvName = r.Type().String()
					}
					switch fn.Pkg().Path() {
					case "sync/atomic":
						if modes["atomics"] {
							fun.X = &ast.CallExpr{Fun: hook("P"), Args: []ast.Expr{siteLit(n, "atomic."+fn.Name()), addr()}}
							handled[fun] = true
							count("atomics")
						}
					case "sync":
						if !modes["sync"] {
							return true
						}
						switch {
						case recvName == "*sync.Mutex" && (fn.Name() == "Lock" || fn.Name() == "Unlock" || fn.Name() == "TryLock"):
							c.Replace(&ast.CallExpr{Fun: hook(fn.Name()), Args: []ast.Expr{siteLit(n, "mutex."+fn.Name()), addr()}})
							handled[fun] = true
							count("sync")
						case recvName == "*sync.Once" && fn.Name() == "Do":
							c.Replace(&ast.CallExpr{Fun: hook("OnceDo"), Args: append([]ast.Expr{siteLit(n, "once.Do"), addr()}, n.Args...)})
							handled[fun] = true
							count("sync")
						default:
							fatal("%s: unsupported sync call %s.%s", p.Fset.Position(n.Pos()), recvName, fn.Name())
						}
					case "os":
						if modes["fs"] && recvName == "*os.File" && fileMethods[fn.Name()] {
							c.Replace(&ast.CallExpr{Fun: hook("File" + fn.Name()), Args: append([]ast.Expr{siteLit(n, "file."+fn.Name()), fun.X}, n.Args...)})
							handled[fun] = true
							count("fs")
						}
					}
				}
			}
			return true
		})

		// Shapes we do not understand: a selected sync/atomic or sync method that is
		// not the function of a rewritten call (method value, deferred through a
		// variable, ...).
		ast.Inspect(f, func(n ast.Node) bool {
			se, ok := n.(*ast.SelectorExpr)
			if !ok || handled[se] {
				return true
			}
			sel := p.TypesInfo.Selections[se]
			if sel == nil || sel.Kind() == types.FieldVal {
				return true
			}
			fn, ok := sel.Obj().(*types.Func)
			if !ok || fn.Pkg() == nil {
				return true
			}
			if (fn.Pkg().Path() == "sync/atomic" && modes["atomics"]) || (fn.Pkg().Path() == "sync" && modes["sync"]) {
				fatal("%s: %s.%s used in a shape vrewrite does not instrument", p.Fset.Position(se.Pos()), fn.Pkg().Path(), fn.Name())
			}
			return true
		})

		if changed {
			astutil.AddNamedImport(p.Fset, f, "vhook", hookPath)
			// drop imports that became unused
			for _, path := range []string{"net/http", "crypto/rand", "math/rand", "time", "os"} {
				if !astutil.UsesImport(f, path) {
					astutil.DeleteImport(p.Fset, f, path)
				}
			}
			var buf bytes.Buffer
			if err := format.Node(&buf, p.Fset, f); err != nil {
				fatal("format %s: %v", fname, err)
			}
			dst := filepath.Join(*out, filepath.Base(fname))
			if err := os.WriteFile(dst, buf.Bytes(), 0666); err != nil {
				fatal("%v", err)
			}
			overlay[fname] = dst
		}
	}
	js, _ := json.Marshal(map[string]any{"overlay": overlay, "sites": sites})
	fmt.Println(string(js))
}
